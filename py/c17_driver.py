#!/usr/bin/env python3
"""C17 - Python bindings are a transparent view of the Rust operations.

Differential monitor across the real CPython ABI: generated programs are run (a) on the Python
classes of num_dual (operators, reflected operators, ** with int / float / dual, the named
methods, getters, repr) and (b) by the mirror functions of the same extension module directly on
the Rust types; every intermediate value is compared bit for bit (parts, presence, repr ==
to_string). Driver functions are called with Python callbacks that evaluate such programs; their
return values are compared bit for bit with the Rust drivers, the dual numbers seen inside the
callbacks are checked like any other value, exceptions must propagate unchanged and the
documented error behaviour must hold.

usage: c17_driver.py <quick|thorough>   (env VERIF_SEED)
"""
import json, math, os, random, struct, sys, time

ROOT = "/verif"
sys.path.insert(0, os.environ.get("NDVERIF_SO_DIR") or os.path.join(ROOT, "py"))  # NDVERIF_SO_DIR: coverage lane only
import numpy as np
import ndverif

nd = ndverif.num_dual
TIER = sys.argv[1] if len(sys.argv) > 1 else "quick"
if os.environ.get("VERIF_TIER") in ("quick", "thorough"):
    TIER = os.environ["VERIF_TIER"]
SEED = int(os.environ.get("VERIF_SEED", "20261002"))
T0 = time.time()


def bits(x):
    return struct.unpack("<Q", struct.pack("<d", float(x)))[0]


def same(a, b):
    return bits(a) == bits(b) or (a != a and b != b)


class Acc:
    def __init__(self):
        self.evaluations = 0
        self.classes = {}
        self.nontrivial = set()
        self.samples = []
        self.violations = []
        self.counters = {}

    def observe(self, cls, nontrivial=True):
        self.evaluations += 1
        self.classes[cls] = self.classes.get(cls, 0) + 1
        if nontrivial:
            self.nontrivial.add(cls)

    def count(self, k, n=1):
        self.counters[k] = self.counters.get(k, 0) + n

    def violate(self, sig, what, case):
        if sum(1 for v in self.violations if v[0] == sig) < 3:
            self.violations.append((sig, what, case))


ACC = Acc()

# ------------------------------------------------------------------ flattening through the getters
SCALAR_GETTERS = {
    "Dual64": ["first_derivative"],
    "Dual2_64": ["first_derivative", "second_derivative"],
    "Dual3_64": ["first_derivative", "second_derivative", "third_derivative"],
    "HyperDual64": ["first_derivative", "second_derivative"],
    "HyperHyperDual64": ["first_derivative", "second_derivative", "third_derivative"],
    "HyperDualDual64": ["first_derivative", "second_derivative"],
    "Dual2Dual64": ["first_derivative", "second_derivative"],
    "Dual3Dual64": ["first_derivative", "second_derivative", "third_derivative"],
}
# vector classes: list of (getter, number of optional groups it yields)
VECTOR_GETTERS = {
    "DualSVec64": [("first_derivative", 1)],
    "Dual64Dyn": [("first_derivative", 1)],
    "Dual2Vec64": [("first_derivative", 1), ("second_derivative", 1)],
    "HyperDualVec64": [("first_derivative", 2), ("second_derivative", 1)],
}


def flat_plain(o, out):
    if isinstance(o, (float, int)):
        out.append(float(o))
    elif isinstance(o, (list, tuple, np.ndarray)):
        for e in o:
            flat_plain(e, out)
    else:
        flat_obj(o, out, None)


def flat_obj(o, out, groups):
    """parts of a dual object in the canonical order; `groups` collects (present, values) of the
    optional parts of vector classes (None for classes that have no getters for them)"""
    name = type(o).__name__
    if name in SCALAR_GETTERS:
        flat_plain(o.value, out)
        for g in SCALAR_GETTERS[name]:
            flat_plain(getattr(o, g), out)
        return True
    if name in VECTOR_GETTERS:
        out.append(float(o.value))
        for g, k in VECTOR_GETTERS[name]:
            v = getattr(o, g)
            items = [v] if k == 1 else list(v)
            for it in items:
                if it is None:
                    groups.append((False, []))
                else:
                    vals = []
                    flat_plain(it, vals)
                    groups.append((True, vals))
        return True
    # classes without derivative getters (Dual2_64Dyn, HyperDual64Dyn): value only
    out.append(float(o.value))
    return False


def compare_value(tag, cls_key, pyobj, mirror_node, case):
    """pyobj: Python dual object; mirror_node: (parts, [(present, size)], to_string)"""
    mparts, mpres, mstr = mirror_node
    ACC.observe(cls_key)
    # repr is the Rust rendering
    r = repr(pyobj)
    if r != mstr:
        ACC.violate("repr:%s" % tag, "%s: repr %r but Rust to_string gives %r" % (tag, r, mstr), case)
        return False
    out, groups = [], []
    full = flat_obj(pyobj, out, groups)
    name = type(pyobj).__name__
    if not full:
        if not same(out[0], mparts[0]):
            ACC.violate("value:%s" % tag, "%s: value %r but Rust gives %r" % (tag, out[0], mparts[0]), case)
            return False
        return True
    if name in SCALAR_GETTERS:
        if len(out) != len(mparts) or any(not same(a, b) for a, b in zip(out, mparts)):
            ACC.violate("parts:%s" % tag, "%s: getters give %r but the Rust operation gives %r" % (tag, out, mparts), case)
            return False
        return True
    # vector class: real part, then groups
    if not same(out[0], mparts[0]):
        ACC.violate("parts:%s" % tag, "%s: value %r but Rust gives %r" % (tag, out[0], mparts[0]), case)
        return False
    pos = 1
    if len(groups) != len(mpres):
        ACC.violate("parts:%s" % tag, "%s: %d optional parts through the getters, Rust has %d" % (tag, len(groups), len(mpres)), case)
        return False
    for (ppres, pvals), (mp, msize) in zip(groups, mpres):
        seg = mparts[pos:pos + msize]
        pos += msize
        if ppres != mp:
            ACC.violate("presence:%s" % tag, "%s: part present=%s through the getter but present=%s in Rust" % (tag, ppres, mp), case)
            return False
        if ppres and (len(pvals) != len(seg) or any(not same(a, b) for a, b in zip(pvals, seg))):
            ACC.violate("parts:%s" % tag, "%s: getter gives %r but the Rust operation gives %r" % (tag, pvals, seg), case)
            return False
    return True


def flat_for_mirror(pyobj, nslots_hint=None):
    """(parts with zeros for absent groups, presence flags) of an input object; vector classes
    need the group sizes, which the caller supplies through nslots_hint = list of group sizes"""
    out, groups = [], []
    full = flat_obj(pyobj, out, groups)
    if not full:
        return None
    pres = []
    for (p, vals), size in zip(groups, nslots_hint or []):
        pres.append(p)
        out.extend(vals if p else [0.0] * size)
    return out, pres


# ------------------------------------------------------------------ programs
UNARY = ["recip", "sqrt", "cbrt", "exp", "exp2", "expm1", "log", "log2", "log10", "log1p", "sin", "cos", "tan",
         "arcsin", "arccos", "arctan", "sinh", "cosh", "tanh", "arcsinh", "arccosh", "arctanh", "sph_j0", "sph_j1", "sph_j2"]


def f_un(name, v):
    try:
        return {
            "recip": lambda: 1.0 / v, "sqrt": lambda: math.sqrt(v), "cbrt": lambda: math.copysign(abs(v) ** (1 / 3), v),
            "exp": lambda: math.exp(v), "exp2": lambda: 2.0 ** v, "expm1": lambda: math.expm1(v), "log": lambda: math.log(v),
            "log2": lambda: math.log2(v), "log10": lambda: math.log10(v), "log1p": lambda: math.log1p(v), "sin": lambda: math.sin(v),
            "cos": lambda: math.cos(v), "tan": lambda: math.tan(v), "arcsin": lambda: math.asin(v), "arccos": lambda: math.acos(v),
            "arctan": lambda: math.atan(v), "sinh": lambda: math.sinh(v), "cosh": lambda: math.cosh(v), "tanh": lambda: math.tanh(v),
            "arcsinh": lambda: math.asinh(v), "arccosh": lambda: math.acosh(v), "arctanh": lambda: math.atanh(v),
            "sph_j0": lambda: math.sin(v) / v if v != 0 else 1.0, "sph_j1": lambda: 0.3 * v, "sph_j2": lambda: 0.06 * v * v,
        }[name]()
    except (ValueError, OverflowError, ZeroDivisionError):
        return None


def ok_un(name, v):
    a = abs(v)
    if name in ("recip", "cbrt"):
        return a >= 0.05
    if name in ("sqrt", "log", "log2", "log10"):
        return v >= 0.05
    if name == "log1p":
        return v >= -0.9
    if name in ("exp", "exp2", "expm1"):
        return a <= 20
    if name in ("sin", "cos", "sph_j0", "sph_j1", "sph_j2"):
        return a <= 30
    if name == "tan":
        return a <= 30 and abs(math.cos(v)) >= 0.05
    if name in ("arcsin", "arccos", "arctanh"):
        return a <= 0.9
    if name == "arccosh":
        return v >= 1.1
    if name in ("sinh", "cosh"):
        return a <= 10
    return a <= 1e3


def gen_program(rng, ninputs, x, max_nodes, with_from_re=True):
    nodes = [{"op": "input", "i": i} for i in range(ninputs)]
    vals = list(x)
    target = ninputs + 2 + rng.randrange(max_nodes)
    tries = 0
    while len(nodes) < target and tries < 2000:
        tries += 1
        n = len(nodes)
        pick = lambda: (n - 1 - rng.randrange(min(n, 4))) if rng.random() < 0.6 else rng.randrange(n)
        a, b = pick(), pick()
        va, vb = vals[a], vals[b]
        k = rng.randrange(100)
        cand = None
        c = float(np.float32(rng.choice([-1, 1]) * math.exp(rng.uniform(math.log(0.1), math.log(8)))))
        if k < 30:
            name = rng.choice(UNARY)
            if ok_un(name, va):
                r = f_un(name, va)
                if r is not None:
                    cand = ({"op": name, "a": a}, r)
        elif k < 42:
            op = rng.choice(["add", "sub", "mul", "div"])
            if op != "div" or abs(vb) >= 0.05:
                cand = ({"op": op, "a": a, "b": b}, {"add": va + vb, "sub": va - vb, "mul": va * vb, "div": va / vb if vb else 0}[op])
        elif k < 54:
            op = rng.choice(["addf", "subf", "mulf", "divf"])
            cand = ({"op": op, "a": a, "f": c}, {"addf": va + c, "subf": va - c, "mulf": va * c, "divf": va / c}[op])
        elif k < 68:
            op = rng.choice(["radd", "rsub", "rmul", "rdiv"])
            if op != "rdiv" or abs(va) >= 0.05:
                cand = ({"op": op, "a": a, "f": c}, {"radd": c + va, "rsub": c - va, "rmul": c * va, "rdiv": c / va if va else 0}[op])
        elif k < 72:
            cand = ({"op": "neg", "a": a}, -va)
        elif k < 78:
            e = rng.choice([-3, -2, -1, 0, 1, 2, 3, 4, 5, 7])
            if (e >= 0 or abs(va) >= 0.05) and abs(va) >= 1e-3 and abs(e * math.log(abs(va))) <= 12:
                cand = ({"op": rng.choice(["pow_int", "powi"]), "a": a, "n": e}, va ** e)
        elif k < 84:
            p = rng.choice([0.0, 1.0, 2.0, 3.0, -1.0, 0.5, -0.5, 1.5, 2.5, 4.25, -2.75])
            if va >= 0.05 and abs(p * math.log(va)) <= 12:
                cand = ({"op": rng.choice(["pow_float", "powf"]), "a": a, "f": p}, va ** p)
        elif k < 88:
            if va >= 0.05 and abs(vb) <= 8 and abs(vb * math.log(va)) <= 12:
                cand = ({"op": rng.choice(["pow_dual", "powd"]), "a": a, "b": b}, va ** vb)
        elif k < 92:
            cc = pick()
            cand = ({"op": "mul_add", "a": a, "b": b, "c": cc}, va * vb + vals[cc])
        elif k < 95:
            if abs(va) <= 30:
                w = rng.randrange(2)
                cand = ({"op": "sin_cos%d" % w, "a": a}, math.cos(va) if w else math.sin(va))
        elif k < 97:
            base = rng.choice([0.5, 4.25, 10.0])
            if va >= 0.05:
                cand = ({"op": "log_base", "a": a, "f": base}, math.log(va) / math.log(base))
        elif with_from_re:
            cand = ({"op": "from_re", "f": c}, c)
        if cand is not None:
            node, val = cand
            if isinstance(val, complex) or val != val or abs(val) > 1e6:
                continue
            nodes.append(node)
            vals.append(val)
    return nodes


def encode(prog):
    """floats travel as bit patterns so that the Rust side sees exactly the same value"""
    out = []
    for n in prog:
        m = dict(n)
        if "f" in m:
            m["fb"] = bits(m["f"])
        out.append(m)
    return json.dumps(out)


def eval_py(prog, inputs, cls0=None):
    v = []
    for n in prog:
        op = n["op"]
        a = v[n["a"]] if "a" in n else None
        b = v[n["b"]] if "b" in n else None
        f = n.get("f")
        if op == "input":
            r = inputs[n["i"]]
        elif op == "add":
            r = a + b
        elif op == "sub":
            r = a - b
        elif op == "mul":
            r = a * b
        elif op == "div":
            r = a / b
        elif op == "addf":
            r = a + f
        elif op == "subf":
            r = a - f
        elif op == "mulf":
            r = a * f
        elif op == "divf":
            r = a / f
        elif op == "radd":
            r = f + a
        elif op == "rsub":
            r = f - a
        elif op == "rmul":
            r = f * a
        elif op == "rdiv":
            r = f / a
        elif op == "neg":
            r = -a
        elif op == "pow_int":
            r = a ** int(n["n"])
        elif op == "powi":
            r = a.powi(int(n["n"]))
        elif op == "pow_float":
            r = a ** float(f)
        elif op == "powf":
            r = a.powf(float(f))
        elif op == "pow_dual":
            r = a ** b
        elif op == "powd":
            r = a.powd(b)
        elif op == "mul_add":
            r = a.mul_add(b, v[n["c"]])
        elif op == "sin_cos0":
            r = a.sin_cos()[0]
        elif op == "sin_cos1":
            r = a.sin_cos()[1]
        elif op == "log_base":
            r = a.log_base(f)
        elif op == "from_re":
            t = type(cls0 if cls0 is not None else inputs[0])
            # nested classes take their real part as a Dual64
            r = t.from_re(nd.Dual64(f, 0.0)) if t.__name__ in ("HyperDualDual64", "Dual2Dual64", "Dual3Dual64") else t.from_re(f)
        else:
            r = getattr(a, op)()
        v.append(r)
    return v


# the Rust side reads "fb" (bit pattern); patch the mirror's JSON accordingly
def mirror_json(prog):
    out = []
    for n in prog:
        m = dict(n)
        if "f" in m:
            # serde_json parses a Python repr of a float exactly only with the float_roundtrip
            # feature; send the shortest repr and verify on the Python side that it round-trips
            m["f"] = float(m["f"])
            m["fb"] = bits(m["f"])
        out.append(m)
    return json.dumps(out)


# ------------------------------------------------------------------ scalar classes
def rnd_part(rng):
    m = rng.choice([rng.uniform(0.01, 0.1), rng.uniform(2, 9), rng.uniform(0.2, 2), rng.uniform(0.2, 2)])
    return m * rng.choice([-1, 1])


def make_scalar(cls, parts):
    D = nd.Dual64
    if cls == "Dual64":
        return nd.Dual64(*parts)
    if cls == "Dual2_64":
        return nd.Dual2_64(*parts)
    if cls == "Dual3_64":
        return nd.Dual3_64(*parts)
    if cls == "HyperDual64":
        return nd.HyperDual64(*parts)
    if cls == "HyperHyperDual64":
        return nd.HyperHyperDual64(*parts)
    pairs = [D(parts[2 * i], parts[2 * i + 1]) for i in range(len(parts) // 2)]
    return {"HyperDualDual64": nd.HyperDualDual64, "Dual2Dual64": nd.Dual2Dual64, "Dual3Dual64": nd.Dual3Dual64}[cls](*pairs)


NPARTS = {"Dual64": 2, "Dual2_64": 3, "Dual3_64": 4, "HyperDual64": 4, "HyperHyperDual64": 8, "HyperDualDual64": 8, "Dual2Dual64": 6, "Dual3Dual64": 8}


def scalar_round(rng, cls):
    n = 1 + rng.randrange(3)
    x = [float(np.float32(rng.choice([rng.uniform(0.2, 2), rng.uniform(-2, -0.2), rng.uniform(0.05, 0.9)]))) for _ in range(n)]
    prog = gen_program(rng, n, x, 18)
    stride = NPARTS[cls] // (2 if cls in ("HyperDualDual64", "Dual2Dual64", "Dual3Dual64") else 1)
    ins = []
    for x0 in x:
        p = [rnd_part(rng) for _ in range(NPARTS[cls])]
        p[0] = x0
        ins.append(p)
    objs = [make_scalar(cls, p) for p in ins]
    case = {"class": cls, "program": prog, "inputs": ins}
    try:
        pv = eval_py(prog, objs)
    except BaseException as e:  # noqa  (a Rust panic arrives as pyo3's PanicException, a BaseException)
        _reraise_control(e)
        ACC.violate("exception:%s" % cls, "evaluating a program on %s raised %r" % (cls, e), case)
        return
    mv = ndverif.mirror_eval(cls, (0, 0), mirror_json(prog), [(p, []) for p in ins])
    for i, (po, mo) in enumerate(zip(pv, mv)):
        if not compare_value("%s.%s" % (cls, prog[i]["op"]), "%s|%s" % (prog[i]["op"], cls), po, mo, dict(case, node=i)):
            break
    if len(ACC.samples) < 3:
        ACC.samples.append({"class": cls, "program": prog, "inputs": ins, "python_repr_of_last_node": repr(pv[-1]), "rust_to_string": mv[-1][2]})
    _ = stride


def _reraise_control(e):
    if isinstance(e, (KeyboardInterrupt, SystemExit, GeneratorExit, MemoryError)):
        raise e


def huge_int_pow(rng, cls):
    """x ** n with a Python int beyond the i32 range must behave like powf(float(n))"""
    n = rng.choice([2 ** 31 + 5, -(2 ** 31) - 7, 2 ** 32, 2 ** 40 + 1, -(2 ** 35) + 3]) if cls != "x" else 0
    p = [rnd_part(rng) / abs(n) for _ in range(NPARTS[cls])]
    k = rng.randrange(-3, 4)
    p[0] = 1.0 + k * 2.0 ** -52
    if cls in ("HyperDualDual64", "Dual2Dual64", "Dual3Dual64"):
        pass
    x = make_scalar(cls, p)
    prog = [{"op": "input", "i": 0}, {"op": "pow_int_as_float", "a": 0, "n": n}]
    case = {"class": cls, "x": p, "n": n}
    ACC.observe("pow_huge_int|%s" % cls)
    try:
        r = x ** n
    except BaseException as e:  # noqa  (a Rust panic arrives as pyo3's PanicException, a BaseException)
        _reraise_control(e)
        ACC.violate("pow_huge_int:%s" % cls, "%s ** %d raised %r" % (cls, n, e), case)
        return
    mprog = [{"op": "input", "i": 0}, {"op": "pow_float", "a": 0, "f": float(n)}]
    mv = ndverif.mirror_eval(cls, (0, 0), mirror_json(mprog), [(p, [])])
    compare_value("%s.pow_huge_int" % cls, "pow_huge_int|%s" % cls, r, mv[1], case)
    _ = prog


def ties_and_aliases(rng, cls):
    """(a) float operands exactly equal to the real part (differences of exactly zero keep the sign the
    Rust operation gives); (b) augmented assignment rebinds the name: the object an alias still refers
    to keeps its value"""
    p = [rnd_part(rng) for _ in range(NPARTS[cls])]
    x = make_scalar(cls, p)
    f = p[0]
    for op in ("rsub", "subf", "radd", "addf", "rdiv", "divf", "rmul"):
        ff = -f if op in ("radd", "addf") else f
        prog = [{"op": "input", "i": 0}, {"op": op, "a": 0, "f": ff}]
        case = {"class": cls, "x": p, "op": op, "f": ff}
        ACC.observe("tie:%s|%s" % (op, cls))
        try:
            pv = eval_py(prog, [x])
        except BaseException as e:  # noqa
            _reraise_control(e)
            ACC.violate("tie:%s:%s:raised" % (op, cls), "%s with a float equal to the real part raised %r" % (op, e), case)
            continue
        mv = ndverif.mirror_eval(cls, (0, 0), mirror_json(prog), [(p, [])])
        compare_value("%s.%s[tie]" % (cls, op), "tie:%s|%s" % (op, cls), pv[1], mv[1], case)
    import operator
    q = [rnd_part(rng) for _ in range(NPARTS[cls])]
    for name, iop, bop in (("iadd", operator.iadd, operator.add), ("isub", operator.isub, operator.sub), ("imul", operator.imul, operator.mul), ("itruediv", operator.itruediv, operator.truediv)):
        for rhs_kind in ("float", "dual"):
            a = make_scalar(cls, p)
            rhs = 1.75 if rhs_kind == "float" else make_scalar(cls, q)
            before = repr(a)
            want = repr(bop(make_scalar(cls, p), rhs))
            alias = a
            ACC.observe("augmented-assignment:%s:%s|%s" % (name, rhs_kind, cls))
            try:
                a = iop(a, rhs)
            except BaseException as e:  # noqa
                _reraise_control(e)
                ACC.violate("augmented-assignment:%s:raised" % cls, "%s with a %s raised %r" % (name, rhs_kind, e), {"class": cls})
                continue
            if repr(a) != want or repr(alias) != before:
                ACC.violate("augmented-assignment:%s" % cls, "after `a %s= <%s>`: a is %r (expected %r), the object an alias refers to is %r (was %r)" % (name[1:], rhs_kind, a, want, alias, before), {"class": cls, "x": p, "op": name})


def nested_from_re(rng, cls):
    """from_re of a nested class takes a Dual64: all of it must arrive (value and derivative)"""
    a, b = rnd_part(rng), rnd_part(rng)
    ACC.observe("from_re(dual)|%s" % cls)
    try:
        got = getattr(nd, cls).from_re(nd.Dual64(a, b))
    except BaseException as e:  # noqa
        _reraise_control(e)
        ACC.violate("from_re:%s:raised" % cls, "%s.from_re(Dual64) raised %r" % (cls, e), {"class": cls, "re": [a, b]})
        return
    want = make_scalar(cls, [a, b] + [0.0] * (NPARTS[cls] - 2))
    g, w = [], []
    flat_obj(got, g, [])
    flat_obj(want, w, [])
    if len(g) != len(w) or any(not same(p, q) for p, q in zip(g, w)) or repr(got) != repr(want):
        ACC.violate("from_re:%s" % cls, "%s.from_re(Dual64(%r, %r)) is %r, a constant with that real part is %r" % (cls, a, b, got, want), {"class": cls, "re": [a, b]})


def numpy_ops(rng, cls):
    """dual op ndarray (and ndarray op dual): float arrays and object arrays of every shape and memory
    layout must give the element-wise scalar operation, as a new array, leaving the operand untouched"""
    import operator
    p = [rnd_part(rng) for _ in range(NPARTS[cls])]
    x = make_scalar(cls, p)
    OPS = [("add", operator.add), ("sub", operator.sub), ("mul", operator.mul), ("truediv", operator.truediv)]

    def fl():
        return float(np.float32(rnd_part(rng)))

    def du():
        return make_scalar(cls, [rnd_part(rng) for _ in range(NPARTS[cls])])

    # (layout name, array builder) -- every builder returns a fresh array
    def float_arrays():
        base = np.array([[fl() for _ in range(3)] for _ in range(2)])
        cube = np.array([[[fl() for _ in range(2)] for _ in range(3)] for _ in range(2)])
        return [("1d", np.array([fl() for _ in range(3)])), ("2d-C", base.copy()), ("2d-transposed", base.T), ("2d-fortran", np.asfortranarray(base)),
                ("1d-reversed", np.array([fl() for _ in range(4)])[::-1]), ("1d-strided", np.array([fl() for _ in range(6)])[::2]),
                ("3d-transposed", cube.transpose(2, 0, 1)), ("2d-column-slice", base[:, 1:]), ("empty", np.array([], dtype=float)), ("0d", np.array(fl())), ("1x1", np.array([[fl()]]))]

    def object_arrays():
        def grid(r, c):
            a = np.empty((r, c), dtype=object)
            for i in range(r):
                for k in range(c):
                    a[i, k] = du()
            return a
        one = np.empty(3, dtype=object)
        for i in range(3):
            one[i] = du()
        g = grid(2, 3)
        zero_d = np.empty((), dtype=object)
        zero_d[()] = du()
        return [("1d", one), ("2d-C", grid(2, 2)), ("2d-transposed", g.T), ("1d-reversed", one.copy()[::-1]), ("1x1", grid(1, 1)), ("empty", np.array([], dtype=object)), ("0d", zero_d)]

    for name, op in OPS:
        for kind, arrays in (("float", float_arrays()), ("object", object_arrays())):
            for layout, arr in arrays:
                cls_key = "ndarray-%s:%s:%s|%s" % (kind, name, layout, cls)
                ACC.observe(cls_key)
                case = {"class": cls, "x": p, "op": name, "kind": kind, "layout": layout, "shape": list(arr.shape), "array": [repr(e) for e in arr.flat]}
                before = list(arr.flat)
                before_repr = [repr(e) for e in before]
                try:
                    got = op(x, arr)
                except BaseException as e:  # noqa
                    _reraise_control(e)
                    ACC.violate("ndarray-%s:%s:%s:raised" % (kind, layout, cls), "%s %s %s ndarray of shape %s raised %s: %s" % (cls, name, kind, arr.shape, type(e).__name__, str(e)[:200]), case)
                    continue
                want = [op(x, e) for e in before]
                got_arr = np.asarray(got, dtype=object)
                if got_arr.shape != arr.shape:
                    ACC.violate("ndarray-%s:%s:%s:shape" % (kind, layout, cls), "%s %s %s ndarray of shape %s returns shape %s" % (cls, name, kind, arr.shape, got_arr.shape), case)
                    continue
                # compare index by index (not in memory order)
                bad = None
                for n_, idx in enumerate(np.ndindex(*arr.shape)):
                    w = op(x, arr[idx]) if kind == "float" else op(x, before[n_])
                    if repr(got_arr[idx]) != repr(w):
                        bad = (idx, repr(got_arr[idx]), repr(w))
                        break
                if bad is not None:
                    ACC.violate("ndarray-%s:%s:%s" % (kind, name, cls), "%s %s %s ndarray (%s, shape %s): element %s is %s, the scalar operation gives %s" % (cls, name, kind, layout, arr.shape, bad[0], bad[1], bad[2]), case)
                # the operand itself must be left alone
                after = list(arr.flat)
                if got is arr or len(after) != len(before) or (kind == "object" and any(a is not b for a, b in zip(after, before))) or [repr(e) for e in after] != before_repr:
                    ACC.violate("ndarray-%s:operand-overwritten:%s" % (kind, cls), "%s %s %s ndarray (%s): the right operand was modified by the operation (result is operand: %s); before %r, after %r" % (cls, name, kind, layout, got is arr, before_repr[:4], [repr(e) for e in after][:4]), case)
                _ = want
                # reflected: ndarray op dual goes through numpy's element-wise dispatch
                if layout in ("1d", "2d-C", "2d-transposed") :
                    ACC.observe("ndarray-%s-reflected:%s:%s|%s" % (kind, name, layout, cls))
                    try:
                        got = op(arr, x)
                        got_arr = np.asarray(got, dtype=object)
                        for idx in np.ndindex(*arr.shape):
                            w = op(arr[idx], x)
                            if repr(got_arr[idx]) != repr(w):
                                ACC.violate("ndarray-%s-reflected:%s:%s" % (kind, name, cls), "%s ndarray (%s) %s %s: element %s is %r, the scalar operation gives %r" % (kind, layout, name, cls, idx, got_arr[idx], w), case)
                                break
                    except BaseException as e:  # noqa
                        _reraise_control(e)
                        ACC.violate("ndarray-%s-reflected:%s:raised" % (kind, cls), "%s ndarray (%s) %s %s raised %s: %s" % (kind, layout, name, cls, type(e).__name__, str(e)[:200]), case)
    # a small program that uses the same array twice: the second use must see the original values
    ACC.observe("ndarray-object:reuse-of-operand|%s" % cls)
    y, z = du(), du()
    arr = np.empty(2, dtype=object)
    arr[0], arr[1] = y, z
    try:
        first = x + arr
        second = x * arr
        want = [x * y, x * z]
        if [repr(e) for e in second] != [repr(e) for e in want]:
            ACC.violate("ndarray-object:reuse-of-operand:%s" % cls, "b = x + a; c = x * a: c is %r, x * (original a) is %r" % (list(second), want), {"class": cls, "x": p})
        _ = first
    except BaseException as e:  # noqa
        _reraise_control(e)
        ACC.violate("ndarray-object:reuse-of-operand:%s:raised" % cls, "raised %r" % (e,), {"class": cls})


# ------------------------------------------------------------------ drivers
class Probe(Exception):
    pass


def group_sizes(cls, dims):
    m, n = dims
    return {"DualSVec64": [m], "Dual64Dyn": [m], "Dual2Vec64": [m, m * m], "HyperDualVec64": [m, n, m * n]}.get(cls)


def check_callback_values(tag, prog, objs, values, dims, case):
    """the dual numbers seen inside a driver callback, against the mirror on the same inputs"""
    cls = type(objs[0]).__name__
    gs = group_sizes(cls, dims)
    if cls in SCALAR_GETTERS:
        ins = []
        for o in objs:
            out = []
            flat_obj(o, out, [])
            ins.append((out, []))
    elif gs is not None:
        ins = [flat_for_mirror(o, gs) for o in objs]
    else:
        # no derivative getters (Dual2_64Dyn, HyperDual64Dyn): only repr/value of results vs a Rust
        # evaluation seeded the way the driver documents
        return
    try:
        mv = ndverif.mirror_eval(cls, dims, mirror_json(prog), ins)
    except BaseException as e:  # noqa  (a Rust panic arrives as pyo3's PanicException, a BaseException)
        _reraise_control(e)
        ACC.violate("mirror:%s" % tag, "mirror evaluation failed: %r" % (e,), case)
        return
    for i, (po, mo) in enumerate(zip(values, mv)):
        if not compare_value("%s:%s.%s" % (tag, cls, prog[i]["op"]), "callback:%s|%s|%s" % (tag, prog[i]["op"], cls), po, mo, dict(case, node=i)):
            return


def flat_result(r, out):
    if isinstance(r, (float, int)):
        out.append(float(r))
    else:
        for e in r:
            flat_result(e, out)


def run_driver(rng, name):
    x_of = lambda k: [float(np.float32(rng.choice([rng.uniform(0.2, 2), rng.uniform(-2, -0.2), rng.uniform(0.05, 0.9)]))) for _ in range(k)]
    seen = {}

    def cb_factory(progs, ninp):
        def cb(*args):
            objs = []
            for a in args:
                objs.extend(a if isinstance(a, (list, tuple)) else [a])
            seen["objs"] = objs
            vals = [eval_py(p, objs, objs[0]) for p in progs]
            seen["vals"] = vals
            if len(progs) == 1 and name != "jacobian":
                return vals[0][-1]
            out = [v[-1] for v in vals]
            # any sequence of dual numbers is a legitimate return value of a vector function
            if seen["container"] == "tuple":
                return tuple(out)
            if seen["container"] == "ndarray":
                arr = np.empty(len(out), dtype=object)
                for i_, o_ in enumerate(out):
                    arr[i_] = o_
                return arr
            return out
        return cb

    seen["container"] = rng.choice(["list", "list", "tuple", "ndarray"])

    y, ijk, dims = [], (0, 0, 0), (0, 0)
    # every driver is also called with its documented parameter names as keywords (in another order)
    kw = rng.random() < 0.35
    if name in ("first_derivative", "second_derivative", "third_derivative"):
        x = x_of(1)
        progs = [gen_program(rng, 1, x, 14)]
        call = (lambda f: getattr(nd, name)(f, x[0])) if not kw else (lambda f: getattr(nd, name)(x=x[0], f=f))
        key = name
    elif name == "second_partial_derivative":
        x, y = x_of(1), x_of(1)
        progs = [gen_program(rng, 2, x + y, 14)]
        call = (lambda f: nd.second_partial_derivative(f, x[0], y[0])) if not kw else (lambda f: nd.second_partial_derivative(y=y[0], x=x[0], f=f))
        key = name
    elif name == "third_partial_derivative":
        x = x_of(3)
        progs = [gen_program(rng, 3, x, 14)]
        call = (lambda f: nd.third_partial_derivative(f, x[0], x[1], x[2])) if not kw else (lambda f: nd.third_partial_derivative(z=x[2], f=f, y=x[1], x=x[0]))
        key = name
    elif name == "third_partial_derivative_vec":
        n = 1 + rng.randrange(4)
        x = x_of(n)
        ijk = (rng.randrange(n), rng.randrange(n), rng.randrange(n))
        progs = [gen_program(rng, n, x, 14)]
        call = (lambda f: nd.third_partial_derivative_vec(f, x, *ijk)) if not kw else (lambda f: nd.third_partial_derivative_vec(f, x, k=ijk[2], j=ijk[1], i=ijk[0]))
        i, j, k = ijk
        key = "%s|n%d|%s" % (name, n, "iii" if i == j == k else "iik" if i == j else "ijj" if j == k else "iji" if i == k else "ijk")
    elif name in ("gradient", "hessian"):
        n = 1 + rng.randrange(12)
        x = x_of(n)
        dims = (n, 0)
        progs = [gen_program(rng, n, x, 10 + n)]
        call = (lambda f: getattr(nd, name)(f, x)) if not kw else (lambda f: getattr(nd, name)(x=x, f=f))
        key = "%s|n%d%s" % (name, n, "-dyn" if n > 10 else "")
    elif name == "jacobian":
        n = 1 + rng.randrange(10)
        m = 1 + rng.randrange(5)
        x = x_of(n)
        dims = (n, 0)
        progs = [gen_program(rng, n, x, 8 + n) if rng.random() > 0.15 or i == m - 1 else [{"op": "from_re", "f": 2.5}] for i in range(m)]
        call = (lambda f: nd.jacobian(f, x)) if not kw else (lambda f: nd.jacobian(x=x, f=f))
        key = "jacobian|m%d|n%d|returns-%s" % (m, n, seen["container"])
    elif name == "partial_hessian":
        if rng.random() < 0.25:
            m, n = rng.choice([(6, 2), (2, 6), (6, 6), (7, 1), (1, 7)])
        else:
            m, n = 1 + rng.randrange(5), 1 + rng.randrange(5)
        x, y = x_of(m), x_of(n)
        dims = (m, n)
        progs = [gen_program(rng, m + n, x + y, 10 + m + n)]
        call = (lambda f: nd.partial_hessian(f, x, y)) if not kw else (lambda f: nd.partial_hessian(y=y, x=x, f=f))
        key = "partial_hessian|%dx%d%s" % (m, n, "-dyn" if max(m, n) > 5 else "")
    else:
        raise ValueError(name)
    case = {"driver": name, "programs": progs, "x": x, "y": y, "ijk": list(ijk)}
    ACC.observe("driver:" + key)
    if kw:
        ACC.observe("driver-keyword-call:" + name)
    try:
        res = call(cb_factory(progs, len(x) + len(y)))
    except BaseException as e:  # noqa  (a Rust panic arrives as pyo3's PanicException, a BaseException)
        _reraise_control(e)
        ACC.violate("driver-exception:%s" % name, "%s raised %r" % (name, e), case)
        return
    got = []
    flat_result(res, got)
    want = ndverif.mirror_driver(name, [mirror_json(p) for p in progs], x, y, ijk)
    if len(got) != len(want) or any(not same(a, b) for a, b in zip(got, want)):
        ACC.violate("driver:%s" % key.split("|")[0], "%s returns %r but the Rust driver gives %r (flattened: f, first-order results, matrix rows)" % (key, got, list(want)), case)
    # the numbers the callback saw and computed
    if "objs" in seen:
        for p, vals in zip(progs, seen["vals"]):
            check_callback_values(name, p, seen["objs"], vals, dims, case)
    # exceptions raised in the callback propagate unchanged
    if rng.random() < 0.3:
        marker = Probe("token-%d" % rng.randrange(10**9))
        ACC.observe("driver-exception-propagation:" + name)

        def bad(*a):
            raise marker
        try:
            call(bad)
            ACC.violate("exception-propagation:%s" % name, "%s swallowed an exception raised in the callback" % name, case)
        except Probe as e:
            if e is not marker:
                ACC.violate("exception-propagation:%s" % name, "%s re-raised a different exception object" % name, case)
        except BaseException as e:  # noqa  (a Rust panic arrives as pyo3's PanicException, a BaseException)
            _reraise_control(e)
            ACC.violate("exception-propagation:%s" % name, "%s turned the callback's exception into %r" % (name, e), case)


def documented_errors():
    ACC.observe("documented-error:jacobian>10")
    try:
        nd.jacobian(lambda v: [v[0]], [1.0] * 11)
        ACC.violate("documented-error:jacobian", "jacobian with 11 variables did not raise", {})
    except TypeError:
        pass
    except BaseException as e:  # noqa  (a Rust panic arrives as pyo3's PanicException, a BaseException)
        _reraise_control(e)
        ACC.violate("documented-error:jacobian", "jacobian with 11 variables raised %r instead of TypeError" % (e,), {})
    ACC.observe("documented-error:non-dual-return")
    try:
        nd.first_derivative(lambda v: 1.0, 1.0)
        ACC.violate("documented-error:first_derivative", "first_derivative accepted a float return value", {})
    except TypeError:
        pass
    except BaseException as e:  # noqa  (a Rust panic arrives as pyo3's PanicException, a BaseException)
        _reraise_control(e)
        ACC.violate("documented-error:first_derivative", "raised %r instead of TypeError" % (e,), {})


def ill_typed_inputs():
    """Observation only (no verdict): what the bindings do with operands / callbacks of the wrong type.
    The property is about values on well-typed inputs; this exercises the error branches so that the
    coverage lane sees them, and records the outcome types in the evidence counters."""
    x = nd.Dual64(1.5, 1.0)
    strs = np.empty(2, dtype=object)
    strs[0], strs[1] = "a", "b"
    mixed = np.empty(2, dtype=object)
    mixed[0], mixed[1] = nd.Dual64(1.0, 0.0), "b"
    cases = [
        ("dual+str", lambda: x + "s"), ("dual-str", lambda: x - "s"), ("dual*str", lambda: x * "s"), ("dual/str", lambda: x / "s"),
        ("dual+object-array-of-str", lambda: x + strs), ("dual-object-array-of-str", lambda: x - strs),
        ("dual*object-array-of-str", lambda: x * strs), ("dual/object-array-of-str", lambda: x / strs),
        ("dual+mixed-object-array", lambda: x + mixed), ("dual*int-array", lambda: x * np.array([1, 2])),
        ("gradient:f-returns-list", lambda: nd.gradient(lambda v: [v[0]], [1.0, 2.0])),
        ("gradient:f-returns-list-dyn", lambda: nd.gradient(lambda v: [v[0]], [1.0] * 12)),
        ("gradient:x-is-float", lambda: nd.gradient(lambda v: v, 1.0)),
        ("jacobian:f-returns-scalar", lambda: nd.jacobian(lambda v: v[0], [1.0, 2.0])),
        ("jacobian:x-is-float", lambda: nd.jacobian(lambda v: [v], 1.0)),
        ("hessian:f-returns-list", lambda: nd.hessian(lambda v: [v[0]], [1.0, 2.0])),
        ("hessian:f-returns-list-dyn", lambda: nd.hessian(lambda v: [v[0]], [1.0] * 12)),
        ("hessian:x-is-float", lambda: nd.hessian(lambda v: v, 1.0)),
        ("partial_hessian:f-returns-list", lambda: nd.partial_hessian(lambda a, b: [a[0]], [1.0], [2.0])),
        ("partial_hessian:f-returns-list-dyn", lambda: nd.partial_hessian(lambda a, b: [a[0]], [1.0] * 7, [2.0])),
        ("partial_hessian:x-is-float", lambda: nd.partial_hessian(lambda a, b: a, 1.0, 2.0)),
        ("second_derivative:f-returns-float", lambda: nd.second_derivative(lambda v: 1.0, 1.0)),
        ("third_derivative:f-returns-float", lambda: nd.third_derivative(lambda v: 1.0, 1.0)),
        ("second_partial_derivative:f-returns-float", lambda: nd.second_partial_derivative(lambda a, b: 1.0, 1.0, 2.0)),
        ("third_partial_derivative:f-returns-float", lambda: nd.third_partial_derivative(lambda a, b, c: 1.0, 1.0, 2.0, 3.0)),
        ("third_partial_derivative_vec:f-returns-float", lambda: nd.third_partial_derivative_vec(lambda v: 1.0, [1.0, 2.0], 0, 1, 1)),
    ]
    for name, thunk in cases:
        try:
            thunk()
            out = "returned-a-value"
        except BaseException as e:  # noqa
            _reraise_control(e)
            out = type(e).__name__
        ACC.counters["ill-typed-input:%s -> %s" % (name, out)] = ACC.counters.get("ill-typed-input:%s -> %s" % (name, out), 0) + 1


def main():
    rng = random.Random(SEED)
    rounds = 120 if TIER == "quick" else 20000
    drivers = ["first_derivative", "second_derivative", "third_derivative", "second_partial_derivative", "third_partial_derivative",
               "third_partial_derivative_vec", "gradient", "hessian", "jacobian", "partial_hessian"]
    for r in range(rounds):
        for cls in NPARTS:
            scalar_round(rng, cls)
        if r % 4 == 0:
            for cls in NPARTS:
                numpy_ops(rng, cls)
                huge_int_pow(rng, cls)
                ties_and_aliases(rng, cls)
                if cls in ("HyperDualDual64", "Dual2Dual64", "Dual3Dual64"):
                    nested_from_re(rng, cls)
        for d in drivers:
            run_driver(rng, d)
            if d in ("gradient", "hessian", "jacobian", "partial_hessian", "third_partial_derivative_vec"):
                run_driver(rng, d)
    documented_errors()
    ill_typed_inputs()
    finish()


def finish():
    known = {}
    try:
        for line in open(os.path.join(ROOT, "KNOWN_FINDINGS.txt")):
            line = line.strip()
            if line.startswith("finding:") and "property=C17" in line:
                parts = line[len("finding:"):].strip().split(" ", 2)
                if len(parts) >= 2 and parts[1].startswith("sig="):
                    known[parts[1][4:]] = parts[2] if len(parts) > 2 else ""
    except OSError:
        pass
    real = [v for v in ACC.violations if v[0] not in known]
    hit = {}
    for v in ACC.violations:
        if v[0] in known:
            hit.setdefault(v[0], []).append(v[1])
    ops = sorted({k.split("|")[0] for k in ACC.classes})
    need = len([k for k in ACC.classes if k.startswith("driver:")]) >= 40 and len(ops) >= 60
    verdict = "violated" if real else ("held" if need else "inconclusive")
    ev = {
        "property_id": "C17", "tier": TIER if TIER in ("quick", "thorough") else "quick", "seed": SEED, "level": "exploration",
        "coverage": {
            "evaluations": ACC.evaluations, "distinct_nontrivial": len(ACC.nontrivial),
            "rule": "one evaluation = one Python value (program node on a scalar class, value seen or computed inside a driver callback, ndarray operation, driver result) compared bit for bit with the Rust operation; class = (operation | callback:driver:operation | driver with dimensions / index pattern | ndarray operation, Python class); all are non-trivial (independent non-unit parts, programs of up to ~20 nodes)",
            "samples": ACC.samples or ["no sample"], "distinct_classes_observed": len(ACC.classes),
            "classes": dict(list(sorted(ACC.classes.items()))[:400]), "operations_observed": ops,
            "counters": ACC.counters, "known_findings_hit": {k: {"cases": len(v), "example": v[0]} for k, v in hit.items()}, "verdict": verdict,
        },
        "assumptions": ["one interpreter (CPython 3.11) and numpy 2.x; no memory-safety lane across the C ABI (Miri cannot cross FFI)",
                        "the mirror functions apply the Rust operation each Python method documents; floats cross the boundary exactly (CPython floats are IEEE doubles)"],
        "wall_s": time.time() - T0, "violations": len(real),
    }
    os.makedirs(os.path.join(ROOT, "evidence"), exist_ok=True)
    json.dump(ev, open(os.environ.get("VERIF_EVIDENCE_PATH") or os.path.join(ROOT, "evidence", "C17.json"), "w"), indent=1, default=str)
    for k, v in hit.items():
        print("KNOWN-FINDING: property=C17 sig=%s cases=%d e.g. %s" % (k, len(v), v[0][:300]))
    print("C17: tier=%s seed=%d evaluations=%d distinct_nontrivial=%d classes=%d wall=%.1fs verdict=%s" % (TIER, SEED, ACC.evaluations, len(ACC.nontrivial), len(ACC.classes), time.time() - T0, verdict))
    if real:
        d = os.path.join(ROOT, "replay", "C17")
        os.makedirs(d, exist_ok=True)
        seen = set()
        for i, (sig, what, case) in enumerate(real):
            path = os.path.join(d, "%s-%d-%d.json" % (TIER, SEED, i))
            json.dump({"property": "C17", "sig": sig, "what": what, "case": case, "seed": SEED}, open(path, "w"), indent=1, default=str)
            if sig not in seen:
                seen.add(sig)
                print("  violation sig=%s : %s" % (sig, what[:400]))
            print("VIOLATION property=C17 replay=%s" % path)
        sys.exit(1)
    if not need:
        print("INCONCLUSIVE: too few driver / operation classes observed")
        sys.exit(2)
    sys.exit(0)


if __name__ == "__main__":
    main()
