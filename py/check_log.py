#!/usr/bin/env python3
"""Offline checker over the recorded event log (independent oracle leg).

Every record is one observed call y = f(x) on some dual number type: the type's monomial per
storage slot, the operand parts and the result parts as IEEE bit patterns. The checker recomputes,
with mpmath at 50 digits and from first principles (mpmath's own special functions, mp.taylor),
the Taylor coefficients of f at the operand's real part, composes them with the operand parts in
exact truncated polynomial arithmetic, and compares every result part with the tolerance rule of
the property. It shares no code with the Rust reference model.

usage: check_log.py <property> <log.jsonl> <summary.json> [max_records]
exit 0: all records within tolerance; 1: violation(s) (printed); 2: nothing checked / error
"""
import json, math, os, struct, sys
from multiprocessing import Pool

import mpmath as mp

mp.mp.dps = 50


def unhex(h):
    return struct.unpack("<d", struct.pack("<Q", int(h, 16)))[0]


def fn_of(key):
    name, _, par = key.partition(":")
    if name == "log":
        b = mp.mpf(unhex(par))
        return lambda x: mp.log(x) / mp.log(b)
    if name == "powi":
        n = int(par)
        return lambda x: mp.power(x, n)
    if name == "powf":
        p = mp.mpf(unhex(par))
        return lambda x: mp.power(x, p)
    table = {
        "recip": lambda x: 1 / x, "sqrt": mp.sqrt, "cbrt": lambda x: mp.sign(x) * mp.root(abs(x), 3) if x.imag == 0 else mp.root(x, 3),
        "exp": mp.exp, "exp2": lambda x: mp.power(2, x), "exp_m1": mp.expm1, "ln": mp.log, "log2": lambda x: mp.log(x, 2),
        "log10": lambda x: mp.log(x, 10), "ln_1p": mp.log1p, "sin": mp.sin, "cos": mp.cos, "tan": mp.tan, "asin": mp.asin,
        "acos": mp.acos, "atan": mp.atan, "sinh": mp.sinh, "cosh": mp.cosh, "tanh": mp.tanh, "asinh": mp.asinh, "acosh": mp.acosh,
        "atanh": mp.atanh,
        "sph_j0": lambda x: mp.sinc(x),
        "sph_j1": lambda x: (mp.sin(x) - x * mp.cos(x)) / x ** 2,
        "sph_j2": lambda x: ((3 - x * x) * mp.sin(x) - 3 * x * mp.cos(x)) / x ** 3,
        "bessel_j0": lambda x: mp.besselj(0, x), "bessel_j1": lambda x: mp.besselj(1, x), "bessel_j2": lambda x: mp.besselj(2, x),
    }
    return table[name]


def taylor_coeffs(key, x0, d):
    """g_k = f^(k)(x0)/k!, k = 0..d, at 50+ digits"""
    name, _, par = key.partition(":")
    x0 = mp.mpf(x0)
    if name == "powi" or (name == "powf" and mp.mpf(unhex(par)) == mp.floor(mp.mpf(unhex(par))) and abs(mp.mpf(unhex(par))) < 100 and mp.mpf(unhex(par)) >= 0):
        # polynomial: binomial coefficients, also at x0 = 0
        p = int(par) if name == "powi" else int(mp.mpf(unhex(par)))
        if p >= 0:
            return [mp.binomial(p, k) * (x0 ** (p - k) if p - k > 0 else (mp.mpf(1) if p == k else mp.mpf(0))) for k in range(d + 1)]
    if name in ("powi", "powf") and x0 == 0:
        p = mp.mpf(unhex(par)) if name == "powf" else mp.mpf(int(par))
        return [mp.mpf(0) if p > k else mp.nan for k in range(d + 1)]
    if name in ("powi", "powf"):
        p = mp.mpf(unhex(par)) if name == "powf" else mp.mpf(int(par))
        if x0 < 0:
            # integer exponent, negative base
            return [mp.binomial(p, k) * mp.power(x0, int(p) - k) for k in range(d + 1)]
        return [mp.binomial(p, k) * mp.power(x0, p - k) for k in range(d + 1)]
    if name.startswith("sph_j") and abs(x0) < mp.mpf("0.5"):
        # Maclaurin series re-expanded at x0 (the closed forms are 0/0 at the origin)
        n = int(name[-1])
        a = {}
        for kk in range(0, 60):
            deg = n + 2 * kk
            a[deg] = (-1) ** kk / (mp.mpf(2) ** kk * mp.factorial(kk) * mp.fac2(2 * n + 2 * kk + 1))
        return [mp.fsum(a[m] * mp.binomial(m, k) * x0 ** (m - k) for m in a if m >= k) for k in range(d + 1)]
    if name == "cbrt" and x0 < 0:
        return [(-1) ** (k + 1) * c for k, c in enumerate(taylor_coeffs("cbrt", -x0, d))]
    f = fn_of(key)
    old = mp.mp.dps
    mp.mp.dps = 50 + 12 * d
    try:
        f1 = first_derivative_of(key)
        if f1 is not None and d >= 1:
            # Numerical differentiation resolves a derivative only relative to the size of the function
            # it differentiates: expm1(-400) = -1 + 1e-174 or atan(1e30) = pi/2 - 1e-30 hide theirs
            # (wide bands of C01).  The first derivative is therefore taken in closed form and only
            # *its* derivatives (which scale like the function itself) are formed numerically.
            c = [f(x0)] + [mp.diff(f1, x0, k - 1) / mp.factorial(k) for k in range(1, d + 1)]
        else:
            c = mp.taylor(f, x0, d)
    finally:
        mp.mp.dps = old
    return [mp.mpf(v.real) if hasattr(v, "real") else v for v in c]


def first_derivative_of(key):
    name, _, par = key.partition(":")
    if name == "log":
        b = mp.mpf(unhex(par))
        return lambda x: 1 / (x * mp.log(b))

    def sech2(x):
        e = mp.exp(-2 * abs(x))
        return 4 * e / (1 + e) ** 2
    table = {
        "recip": lambda x: -1 / (x * x), "cbrt": lambda x: mp.power(x, -mp.mpf(2) / 3) / 3, "sqrt": lambda x: 1 / (2 * mp.sqrt(x)), "exp": mp.exp, "exp2": lambda x: mp.log(2) * mp.power(2, x),
        "exp_m1": mp.exp, "ln": lambda x: 1 / x, "log2": lambda x: 1 / (x * mp.log(2)), "log10": lambda x: 1 / (x * mp.log(10)),
        "ln_1p": lambda x: 1 / (1 + x), "sin": mp.cos, "cos": lambda x: -mp.sin(x), "tan": lambda x: 1 / mp.cos(x) ** 2,
        "asin": lambda x: 1 / mp.sqrt(1 - x * x), "acos": lambda x: -1 / mp.sqrt(1 - x * x), "atan": lambda x: 1 / (1 + x * x),
        "sinh": mp.cosh, "cosh": mp.sinh, "tanh": sech2, "asinh": lambda x: 1 / mp.sqrt(1 + x * x),
        "acosh": lambda x: 1 / mp.sqrt(x * x - 1), "atanh": lambda x: 1 / (1 - x * x),
    }
    return table.get(name)


def radius(name, x0):
    x0 = abs(float(x0))
    if name in ("recip", "sqrt", "cbrt", "ln", "log", "log2", "log10"):
        return x0
    if name == "ln_1p":
        return abs(1 + (float(x0) if True else 0))
    if name in ("asin", "acos", "atanh"):
        return 1 - x0
    if name == "acosh":
        return x0 - 1
    if name in ("atan", "asinh"):
        return math.sqrt(1 + x0 * x0)
    if name == "tanh":
        return math.sqrt(x0 * x0 + math.pi ** 2 / 4)
    return None


def majorant(prop, key, x0, g):
    name = key.partition(":")[0]
    m = [abs(v) for v in g]
    x0f = float(x0)
    if name.startswith("bessel_j"):
        amp = mp.mpf(8)
        return [max(m[k], amp ** k / mp.factorial(k)) for k in range(len(m))]
    if name.startswith("sph_j"):
        n = int(name[-1])
        lvl = 1 / max(abs(mp.mpf(x0f)), 1)
        m = [max(m[k], lvl * mp.binomial(k + n, n)) for k in range(len(m))]
        rho = max(abs(mp.mpf(x0f)), 1)
        for k in range(1, len(m)):
            m[k] = max(m[k], m[k - 1] / rho)
        return m
    rho = None
    if name == "tan":
        k = round((x0f - math.pi / 2) / math.pi)
        rho = abs(x0f - (math.pi / 2 + k * math.pi))
    elif name == "ln_1p":
        rho = abs(1 + x0f)
    elif name == "powi":
        rho = abs(x0f) if int(key.partition(":")[2]) < 0 else None
    elif name == "powf":
        p = unhex(key.partition(":")[2])
        rho = None if (p == int(p) and p >= 0) else abs(x0f)
    else:
        rho = radius(name, x0f)
    if rho:
        # derivatives that are algebraic in x and do not involve the function value: chain from g_1
        start = 2 if name in ("atan", "asinh", "acosh", "asin", "acos", "atanh", "ln", "log", "log2", "log10", "ln_1p") else 1
        for k in range(start, len(m)):
            m[k] = max(m[k], m[k - 1] / mp.mpf(rho))
    extra = 1
    if name == "powi":
        n = abs(int(key.partition(":")[2]))
        extra = 2 + math.log2(max(n, 1)) + (0 if abs(x0f) == 1.0 else n / 8)
    elif name == "powf":
        extra = 2
    return [v * extra for v in m]


def mul(a, b, allowed):
    r = {}
    for ma, va in a.items():
        if va == 0:
            continue
        for mb, vb in b.items():
            mm = tuple(x + y for x, y in zip(ma, mb))
            if mm in allowed:
                r[mm] = r.get(mm, 0) + va * vb
    return r


def compose(g, xt, allowed, d, zero):
    # Horner in the nilpotent part
    r = {zero: g[d]}
    for k in range(d - 1, -1, -1):
        r = mul(r, xt, allowed)
        r[zero] = r.get(zero, 0) + g[k]
    return r


K = 32


def check_record(line):
    try:
        rec = json.loads(line)
        prop, key = rec["p"], rec["f"]
        mons = [tuple(m) for m in rec["mon"]]
        x = [unhex(h) for h in rec["x"]]
        y = [unhex(h) for h in rec["y"]]
        u = mp.mpf(2) ** (-24 if rec["f32"] else -53)
        allowed = set(mons)
        zero = tuple([0] * len(mons[0])) if mons[0] else ()
        d = max((sum(m) for m in mons), default=0)
        fact = lambda m: mp.fprod(mp.factorial(e) for e in m)
        # Taylor-convention coefficients of the operand (last slot of a symmetric pair wins, as in Rust)
        xt, xa = {}, {}
        for m, v in zip(mons, x):
            if m != zero:
                xt[m] = mp.mpf(v) / fact(m)
                xa[m] = abs(xt[m])
        x0 = x[0]
        g = taylor_coeffs(key, x0, d)
        g = [mp.mpf(0) if (isinstance(v, mp.mpf) and mp.isnan(v)) else v for v in g]
        gm = majorant(prop, key, x0, g)
        val = compose(g, xt, allowed, d, zero)
        mag = compose(gm, xa, allowed, d, zero)
        worst = mp.mpf(0)
        # products of several tiny derivative parts underflow on the way in floating point although the exact
        # value (1e-241, say) is representable: below 1e-200 the mpmath leg does not judge (the Rust leg has
        # its own floor at the denormal level and judges the points near zero)
        floor = mp.mpf("3e-42") if rec["f32"] else mp.mpf("1e-200")
        # numerical differentiation in mpmath returns ~1e-145 where a high-order coefficient is exactly zero
        # (sinh^(6)(0)); anything 40 orders of magnitude below the largest part is noise of this oracle
        floor += mp.mpf("1e-40") * max([1.0] + [abs(v) for v in y if math.isfinite(v)])
        for m, got in zip(mons, y):
            want = val.get(m, mp.mpf(0)) * fact(m)
            scale = mag.get(m, mp.mpf(0)) * fact(m)
            if not math.isfinite(got):
                return ("bad", rec, "part %s is %r, true value %s" % (m, got, mp.nstr(want, 17)), float("inf"))
            diff = abs(mp.mpf(got) - want)
            tol = 2 * K * u * scale + floor  # twice: the Rust model doubles the local charge as well
            if diff > tol:
                ratio = float(diff / (u * scale)) if scale > 0 else float("inf")
                return ("bad", rec, "part %s: got %r, true value %s, |diff|/(u*sum|terms|) = %.3g (allowed %d)" % (m, got, mp.nstr(want, 20), ratio, 2 * K), ratio)
            if scale > 0 and 2 * K * u * scale > 100 * floor:
                worst = max(worst, diff / (u * scale))
        return ("ok", rec["f"].partition(":")[0], rec["t"], float(worst))
    except Exception as e:  # noqa
        return ("error", line[:200], repr(e), 0.0)


def main():
    prop, path, out = sys.argv[1], sys.argv[2], sys.argv[3]
    limit = int(sys.argv[4]) if len(sys.argv) > 4 else 10 ** 9
    if not os.path.exists(path):
        print("INCONCLUSIVE: no event log at %s" % path)
        sys.exit(2)
    lines = [l for l in open(path) if l.strip()][:limit]
    with Pool(min(16, os.cpu_count() or 4)) as pool:
        res = pool.map(check_record, lines, chunksize=16)
    ok = [r for r in res if r[0] == "ok"]
    bad = [r for r in res if r[0] == "bad"]
    err = [r for r in res if r[0] == "error"]
    summary = {
        "records": len(lines), "within_tolerance": len(ok), "violations": len(bad), "checker_errors": len(err),
        "functions": sorted({r[1] for r in ok}), "types": len({r[2] for r in ok}),
        "max_ratio": max([r[3] for r in ok], default=0.0), "precision_digits": mp.mp.dps, "K": 2 * K,
        "checker_error_examples": [e[2] for e in err[:3]],
    }
    json.dump(summary, open(out, "w"), indent=1)
    print("%s mpmath log check: records=%d ok=%d violations=%d errors=%d functions=%d max_ratio=%.3f" % (prop, len(lines), len(ok), len(bad), len(err), len(summary["functions"]), summary["max_ratio"]))
    if bad:
        os.makedirs("/verif/replay/%s" % prop, exist_ok=True)
        for i, b in enumerate(bad[:5]):
            p = "/verif/replay/%s/mpmath-%d.json" % (prop, i)
            json.dump({"property": prop, "record": b[1], "what": b[2]}, open(p, "w"), indent=1)
            print("  mpmath: %s on %s: %s" % (b[1]["f"], b[1]["t"], b[2]))
            print("MPMATH-DISAGREES property=%s replay=%s" % (prop, p))
        sys.exit(1)
    if len(ok) == 0 or len(err) > len(lines) // 20:
        print("INCONCLUSIVE: the mpmath checker could not judge the log (%d errors)" % len(err))
        sys.exit(2)
    sys.exit(0)


if __name__ == "__main__":
    main()
