#!/usr/bin/env python3
"""Summarise an lcov export of /repo/src: per-file line coverage and the uncovered line ranges with
their source text, so that unreached mechanisms are visible (coverage lane, DESIGN 7.6)."""
import sys, os, collections, json
lcov, outdir = sys.argv[1], sys.argv[2]
files = collections.OrderedDict()
cur = None
for line in open(lcov):
    line = line.rstrip("\n")
    if line.startswith("SF:"):
        cur = files.setdefault(line[3:], {"lines": {}, "fn": {}})
    elif line.startswith("DA:") and cur is not None:
        ln, cnt = line[3:].split(",")[:2]
        cur["lines"][int(ln)] = max(cur["lines"].get(int(ln), 0), int(cnt))
    elif line.startswith("FNDA:") and cur is not None:
        cnt, name = line[5:].split(",", 1)
        cur["fn"][name] = max(cur["fn"].get(name, 0), int(cnt))
rows, unc = [], []
tot = hit = 0
for f, d in sorted(files.items()):
    if not f.startswith("/repo/src"):
        continue
    n = len(d["lines"]); h = sum(1 for c in d["lines"].values() if c > 0)
    tot += n; hit += h
    rows.append((f, n, h))
    src = open(f, newline="").read().split("\n") if os.path.exists(f) else []
    miss = sorted(l for l, c in d["lines"].items() if c == 0)
    # group consecutive
    i = 0
    while i < len(miss):
        j = i
        while j + 1 < len(miss) and miss[j + 1] <= miss[j] + 1:
            j += 1
        a, b = miss[i], miss[j]
        text = src[a - 1].strip()[:110] if a - 1 < len(src) else ""
        unc.append("%s:%d-%d  %s" % (f, a, b, text))
        i = j + 1
with open(os.path.join(outdir, "uncovered.txt"), "w") as o:
    o.write("\n".join(unc) + "\n")
with open(os.path.join(outdir, "COVERAGE.md"), "w") as o:
    o.write("# Lines of /repo/src executed by the monitors' workloads (coverage lane)\n\n")
    o.write("Instrumented lines are those LLVM kept for at least one instantiation reachable from a monitor binary;\n"
            "generic code never instantiated by any monitor does not appear at all (see DESIGN 7.6).\n\n")
    o.write("| file | instrumented lines | executed | % |\n|---|---|---|---|\n")
    for f, n, h in rows:
        o.write("| %s | %d | %d | %.1f |\n" % (f.replace("/repo/", ""), n, h, 100.0 * h / max(n, 1)))
    o.write("| **total** | %d | %d | %.1f |\n" % (tot, hit, 100.0 * hit / max(tot, 1)))
    o.write("\nUncovered line ranges: %d (listed in uncovered.txt)\n" % len(unc))
print("coverage: %d/%d instrumented lines of /repo/src executed (%.1f%%), %d uncovered ranges" % (hit, tot, 100.0 * hit / max(tot, 1), len(unc)))
