#!/bin/bash
# Confirms seeded mutants in a scratch worktree of /repo (outside /repo and /verif):
#   suite passes with the patch, demo fails with the patch, demo passes without it.
# usage: confirm_mutants.sh <outdir-with-Cxx/mK> ... ; writes <dir>/confirm.json
WT=/tmp/confirm-wt
rm -rf $WT; git -C /repo worktree prune; git -C /repo worktree add -q --detach $WT HEAD || exit 1
cp /repo/Cargo.lock $WT/ 2>/dev/null
export CARGO_TARGET_DIR=$WT/target CARGO_NET_OFFLINE=true
for d in "$@"; do
  [ -f $d/patch.diff ] || continue
  [ -f $d/demo.rs ] || { echo "{\"skipped\": \"no demo.rs\"}" > $d/confirm.json; echo "SKIP $d (no rust demo)"; continue; }
  feats=$(python3 -c "import json,sys; print(json.load(open('$d/meta.json')).get('demo_features','') or '')" 2>/dev/null)
  fa=""; [ -n "$feats" ] && fa="--features $feats"
  git -C $WT checkout -q -- . ; rm -f $WT/tests/demo_seeded.rs
  if ! git -C $WT apply $d/patch.diff 2>/dev/null; then echo "{\"applies\": false}" > $d/confirm.json; echo "NOAPPLY $d"; continue; fi
  (cd $WT && cargo test --workspace --no-fail-fast --offline > $d/confirm_suite.log 2>&1); suite=$?
  cp $d/demo.rs $WT/tests/demo_seeded.rs
  (cd $WT && cargo test --offline $fa --test demo_seeded > $d/confirm_demo_with.log 2>&1); with=$?
  git -C $WT checkout -q -- .
  (cd $WT && cargo test --offline $fa --test demo_seeded > $d/confirm_demo_without.log 2>&1); without=$?
  rm -f $WT/tests/demo_seeded.rs
  ok=false; [ $suite -eq 0 ] && [ $with -ne 0 ] && [ $without -eq 0 ] && ok=true
  echo "{\"applies\": true, \"suite_rc_with_patch\": $suite, \"demo_rc_with_patch\": $with, \"demo_rc_without_patch\": $without, \"confirmed\": $ok, \"repo_head\": \"$(git -C /repo rev-parse --short HEAD)\"}" > $d/confirm.json
  echo "$ok $d (suite=$suite with=$with without=$without)"
done
git -C /repo worktree remove --force $WT
