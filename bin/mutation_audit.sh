#!/bin/bash
# Mutation audit (not a manifest check): runs the checks against every seeded change in a PRIVATE
# MOUNT NAMESPACE in which scratch copies of /repo and /verif (under /tmp/audit) are bind-mounted
# over /repo and /verif, so nothing in the real trees is touched and paths stay valid.
# usage: bin/mutation_audit.sh [seeded-dir ...]     (default: all of /verif/seeded/*)
# result: /verif/seeded/AUDIT.jsonl (one line per mutant: which checks fired)
set -u
if [ "${1:-}" != "--inside" ]; then
  A=/tmp/audit
  rm -rf $A/repo $A/verif; mkdir -p $A
  git clone -q /repo $A/repo && cp /repo/Cargo.lock $A/repo/
  rsync -a --exclude target --exclude replay --exclude logs /verif/ $A/verif/
  mkdir -p $A/verif/target
  # reuse the already built dependency artefacts to save time (copied, not shared)
  rsync -a /verif/target/release $A/verif/target/ 2>/dev/null
  exec unshare -m bash "$0" --inside "$@"
fi
shift
mount --bind /tmp/audit/repo /repo && mount --bind /tmp/audit/verif /verif || exit 2
cd /verif
OUT=/tmp/audit/AUDIT.jsonl; : > $OUT
dirs=("$@"); [ ${#dirs[@]} -eq 0 ] && dirs=(/verif/seeded/*/)
ALL="C01 C02 C03 C04 C05 C06 C07 C08 C09 C10 C11 C12 C13 C14 C15 C16 C18"
for d in "${dirs[@]}"; do
  d=${d%/}; [ -f $d/patch.diff ] || continue
  name=$(basename $d); owner=$(python3 -c "import json;print(json.load(open('$d/meta.json'))['property'])" 2>/dev/null || echo "?")
  git -C /repo checkout -q -- . ; git -C /repo apply $d/patch.diff 2>/dev/null || { echo "{\"mutant\": \"$name\", \"applies\": false}" >> $OUT; continue; }
  caught=""; rcs=""
  # owner through the registered command (wrappers incl. sanitizer lanes / python / wrapping build)
  /verif/bin/check $owner quick > /tmp/audit/last-owner.out 2>&1; orc=$?
  [ $orc -eq 1 ] && caught="$owner"
  ( cd /verif/harness && cargo build --release --bins > /tmp/audit/build.log 2>&1 )
  for c in $ALL; do
    [ "$c" = "$owner" ] && continue
    b=$(echo $c | tr 'A-Z' 'a-z')
    timeout 900 /verif/target/release/$b quick > /tmp/audit/last.out 2>&1; rc=$?
    rcs="$rcs \"$c\": $rc,"
    [ $rc -eq 1 ] && caught="$caught $c"
  done
  sig=$(grep -m1 "violation sig" /tmp/audit/last-owner.out | cut -c1-260 | sed 's/"/'"'"'/g')
  echo "{\"mutant\": \"$name\", \"property\": \"$owner\", \"owner_check_rc\": $orc, \"caught_by\": \"$(echo $caught | xargs)\", \"other_rcs\": {${rcs%,}}, \"owner_first_violation\": \"$sig\"}" >> $OUT
  echo "$name owner=$owner rc=$orc caught_by: $caught"
  git -C /repo checkout -q -- .
done
cp $OUT /tmp/audit/AUDIT.done.jsonl
