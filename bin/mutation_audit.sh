#!/bin/bash
# Mutation audit (not a manifest check): runs the checks against every seeded change in a PRIVATE
# MOUNT NAMESPACE in which scratch copies of /repo and /verif (under /tmp/audit) are bind-mounted
# over /repo and /verif, so nothing in the real trees is touched and paths stay valid.
# usage: bin/mutation_audit.sh [seeded-dir ...]     (default: all of /verif/seeded/*)
#        AUDIT_SHARD=k AUDIT_SHARDS=n bin/mutation_audit.sh    (k = 0..n-1: every n-th change, own scratch
#        directory /tmp/audit-k, so that several shards can run side by side)
# result: /tmp/audit[-k]/AUDIT.jsonl (one line per mutant: which checks fired); merged and committed as
#         /verif/seeded/AUDIT.jsonl by bin/audit_summary.py
set -u
SH=${AUDIT_SHARD:-}; NSH=${AUDIT_SHARDS:-1}
A=/tmp/audit${SH:+-$SH}
export AUDIT_DIR=$A
if [ "${1:-}" != "--inside" ]; then
  rm -rf $A/repo $A/verif; mkdir -p $A
  git clone -q /repo $A/repo && cp /repo/Cargo.lock $A/repo/
  rsync -a --exclude target --exclude replay --exclude logs /verif/ $A/verif/
  mkdir -p $A/verif/target
  # reuse the already built dependency artefacts to save time (copied, not shared)
  rsync -a /verif/target/release $A/verif/target/ 2>/dev/null
  exec unshare -m bash "$0" --inside "$@"
fi
shift
mount --bind $A/repo /repo && mount --bind $A/verif /verif || exit 2
cd /verif
OUT=$A/AUDIT.jsonl; : > $OUT
dirs=("$@"); [ ${#dirs[@]} -eq 0 ] && dirs=(/verif/seeded/*/)
ALL="C01 C02 C03 C04 C05 C06 C07 C08 C09 C10 C11 C12 C13 C14 C15 C16 C18"
idx=-1
for d in "${dirs[@]}"; do
  d=${d%/}; [ -f $d/patch.diff ] || continue
  idx=$((idx+1)); [ $((idx % NSH)) -eq ${SH:-0} ] || continue
  name=$(basename $d); owner=$(python3 -c "import json;print(json.load(open('$d/meta.json'))['property'])" 2>/dev/null || echo "?")
  git -C /repo checkout -q -- . ; git -C /repo apply $d/patch.diff 2>/dev/null || { echo "{\"mutant\": \"$name\", \"applies\": false}" >> $OUT; continue; }
  caught=""; rcs=""
  # owner through the registered command (wrappers incl. sanitizer lanes / python / wrapping build)
  /verif/bin/check $owner quick > $A/last-owner.out 2>&1; orc=$?
  [ $orc -eq 1 ] && caught="$owner"
  ( cd /verif/harness && cargo build --release --bins > $A/build.log 2>&1 )
  for c in $ALL; do
    [ "$c" = "$owner" ] && continue
    b=$(echo $c | tr 'A-Z' 'a-z')
    timeout 900 /verif/target/release/$b quick > $A/last.out 2>&1; rc=$?
    rcs="$rcs \"$c\": $rc,"
    [ $rc -eq 1 ] && caught="$caught $c"
  done
  # changes in the Python layer are also shown to C17 whatever property their author named
  if [ "$owner" != "C17" ] && grep -q "^+++ b/src/python" $d/patch.diff; then
    /verif/bin/check C17 quick > $A/last.out 2>&1; rc=$?
    rcs="$rcs \"C17\": $rc,"
    [ $rc -eq 1 ] && caught="$caught C17"
  fi
  sig=$(grep -m1 "violation sig" $A/last-owner.out | cut -c1-260 | sed 's/"/'"'"'/g')
  echo "{\"mutant\": \"$name\", \"property\": \"$owner\", \"owner_check_rc\": $orc, \"caught_by\": \"$(echo $caught | xargs)\", \"other_rcs\": {${rcs%,}}, \"owner_first_violation\": \"$sig\"}" >> $OUT
  echo "$name owner=$owner rc=$orc caught_by: $caught"
  git -C /repo checkout -q -- .
done
cp $OUT $A/AUDIT.done.jsonl
