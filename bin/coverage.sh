#!/bin/bash
# Coverage lane (not a manifest check; evidence of reach): builds the monitor binaries with
# -Cinstrument-coverage against /repo's current tree, runs every quick workload, and reports which
# lines / functions of /repo/src the monitors actually executed.  Unreached code is listed so that
# workloads can be aimed at it.  Output: /verif/coverage/COVERAGE.md, /verif/coverage/uncovered.txt
# usage: bin/coverage.sh [tier]     (default quick)
set -u
TIER="${1:-quick}"
ROOT=/verif
T=$ROOT/target/cov
BIN=$(rustc +nightly --print sysroot)/lib/rustlib/x86_64-unknown-linux-gnu/bin
export CARGO_NET_OFFLINE=true
mkdir -p $T/prof $T/buildprof $ROOT/coverage; rm -f $T/prof/*.profraw
# build scripts and proc macros are instrumented too: keep their profiles out of /repo and out of the merge
export LLVM_PROFILE_FILE=$T/buildprof/build-%p-%m.profraw
cd $ROOT/harness || exit 2
RUSTFLAGS="-Cinstrument-coverage" CARGO_TARGET_DIR=$T cargo +nightly build --release -p ndv-checks --bins > $T/build.log 2>&1 || { tail -20 $T/build.log; exit 2; }
RUSTFLAGS="-Cinstrument-coverage" CARGO_TARGET_DIR=$T cargo +nightly build --release -p ndv-miri >> $T/build.log 2>&1 || { tail -20 $T/build.log; exit 2; }
objs=""
for b in c01 c02 c03 c04 c05 c06 c07 c08 c09 c10 c11 c12 c13 c14 c15 c16 c18; do
  [ -x $T/release/$b ] || continue
  LLVM_PROFILE_FILE=$T/prof/$b-%p.profraw VERIF_EVIDENCE_PATH=$T/prof/$b.evidence.json VERIF_SEED=${VERIF_SEED:-1} \
     timeout 3600 $T/release/$b $TIER > $T/prof/$b.out 2>&1
  echo "$b rc=$? $(grep -m1 verdict $T/prof/$b.out | sed 's/.*verdict=//')"
  objs="$objs -object $T/release/$b"
done
LLVM_PROFILE_FILE=$T/prof/miri-%p.profraw timeout 600 $T/release/ndv-miri > $T/prof/ndv-miri.out 2>&1; echo "ndv-miri rc=$?"
objs="$objs -object $T/release/ndv-miri"
# Python layer: the extension with num-dual's `python` feature, driven by the C17 driver
( cd $ROOT/harness/ndv-py && PYO3_PYTHON=/opt/veriftools/pyvenv/bin/python RUSTFLAGS="-Cinstrument-coverage" CARGO_TARGET_DIR=$T/py cargo +nightly build --release >> $T/build.log 2>&1 ) && {
  mkdir -p $T/pyso; cp $T/py/release/libndverif.so $T/pyso/ndverif.so
  NDVERIF_SO_DIR=$T/pyso LLVM_PROFILE_FILE=$T/prof/py-%p.profraw VERIF_EVIDENCE_PATH=$T/prof/c17.evidence.json \
    timeout 3600 /opt/veriftools/pyvenv/bin/python $ROOT/py/c17_driver.py $TIER > $T/prof/c17.out 2>&1; echo "c17 rc=$?"
  objs="$objs -object $T/pyso/ndverif.so"
}
rm -rf $T/buildprof
$BIN/llvm-profdata merge -sparse $T/prof/*.profraw -o $T/all.profdata || exit 2
first=$(echo $objs | sed 's/^-object //; s/ .*//'); rest=$(echo $objs | sed 's/^-object [^ ]* *//')
$BIN/llvm-cov report $first $rest -instr-profile=$T/all.profdata --ignore-filename-regex='(registry|rustc|ndv-)' /repo/src > $ROOT/coverage/report.txt 2>$T/cov.err
$BIN/llvm-cov export -format=lcov $first $rest -instr-profile=$T/all.profdata --ignore-filename-regex='(registry|rustc|ndv-)' /repo/src > $T/all.lcov 2>>$T/cov.err
python3 $ROOT/bin/coverage_summary.py $T/all.lcov $ROOT/coverage
