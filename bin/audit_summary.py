#!/usr/bin/env python3
"""Merge the per-shard results of bin/mutation_audit.sh (/tmp/audit*/AUDIT.jsonl) into
/verif/seeded/AUDIT.jsonl and write the human-readable matrix /verif/seeded/AUDIT.md."""
import glob, json, os, sys, collections
srcs = sys.argv[1:] or sorted(glob.glob("/tmp/audit*/AUDIT.jsonl"))
rows = {}
for f in srcs:
    for line in open(f):
        line = line.strip()
        if not line:
            continue
        try:
            r = json.loads(line)
        except Exception:
            continue
        rows[r["mutant"]] = r
names = sorted(rows)
with open("/verif/seeded/AUDIT.jsonl", "w") as o:
    for n in names:
        o.write(json.dumps(rows[n]) + "\n")
checks = ["C%02d" % i for i in range(1, 19)]
by_check = collections.Counter()
uncaught, owner_miss, noapply = [], [], []
lines = []
for n in names:
    r = rows[n]
    if not r.get("applies", True):
        noapply.append(n)
        continue
    cb = r.get("caught_by", "").split()
    for c in cb:
        by_check[c] += 1
    if not cb:
        uncaught.append(n)
    elif r["property"] not in cb:
        owner_miss.append((n, cb))
    own = "yes" if r["property"] in cb else ("inconclusive (exit 2: the monitor process itself was taken down, e.g. by the undefined behaviour it executed)" if r.get("owner_check_rc") == 2 else "**no**")
    lines.append("| %s | %s | %s | %s |" % (n, r["property"], own, " ".join(cb) or "—"))
with open("/verif/seeded/AUDIT.md", "w") as o:
    o.write("# Detection matrix of the seeded changes (bin/mutation_audit.sh, quick tier)\n\n")
    o.write("Each change was applied to a scratch copy of /repo inside a private mount namespace; the owning\n"
            "property's registered quick command (wrappers, sanitizer lanes, Python extension included) and the plain\n"
            "quick binaries of all other Rust monitors were run. `caught by` lists every check that exited 1.\n"
            "C17 is only run as owner (its extension build dominates the time).\n\n")
    o.write("* changes audited: %d (not applicable to the current tree: %d)\n" % (len(names) - len(noapply), len(noapply)))
    o.write("* caught by at least one check: %d; not caught: %d %s\n" % (len(names) - len(noapply) - len(uncaught), len(uncaught), uncaught))
    o.write("* caught, but not by the check of the property the author aimed at: %d\n" % len(owner_miss))
    for n, cb in owner_miss:
        o.write("  * %s — caught by %s\n" % (n, " ".join(cb)))
    if noapply:
        o.write("* no longer applicable (the code they change was replaced by a repair): %s\n" % ", ".join(noapply))
    o.write("\nChanges caught per check: " + ", ".join("%s %d" % (c, by_check[c]) for c in checks if by_check[c]) + "\n\n")
    o.write("| change | property | caught by its own check | caught by |\n|---|---|---|---|\n")
    o.write("\n".join(lines) + "\n")
print("audited %d, uncaught %d %s, owner misses %d, not applicable %d" % (len(names), len(uncaught), uncaught, len(owner_miss), len(noapply)))
