#!/usr/bin/env python3
"""Regenerates /verif/MANIFEST.json from the table below (the single place where checks are registered)."""
import json, os
ROOT = "/verif"
props = [json.loads(l) for l in open(f"{ROOT}/properties.jsonl")]
ids = [p["id"] for p in props]

# id -> (technique, level text, level note, design ref)
CHECKS = {
 "C02": ("exact reference-model monitor: + - neg * / powi recip on dyadic-grid operands vs exact rational truncated-polynomial algebra; exhaustive one-hot (monomial, monomial) pairs + random grid points + 2^k presence patterns",
         "Runtime monitoring with an exact oracle: every result part must equal the exact rational value (no tolerance). The one-hot enumeration covers every existing monomial-pair interaction of every shape (reported as monomial_pair_coverage; the run is inconclusive if one is missed); random grid points and presence enumeration add ~2e5 (quick) / ~5e6 (thorough) cases over 46 types incl. nested, f32 and dynamic dimensions 0..6.",
         "grid sizes chosen by a conservative mantissa budget so that no correct formula can round; results not representable with 3 spare bits are dropped and counted", "DESIGN.md 3/C02"),
 "C03": ("reference-model monitor over generated programs: random expression DAGs of every interface operation evaluated on every type, every node compared with a tracked Taylor-algebra model within the running first-order error bound",
         "Runtime monitoring of compositions: ~7e5 (quick) / ~3e7 (thorough) program nodes over 45 types; programs up to 32 nodes and depth ~19 with sharing, 1-3 independent inputs whose higher-order and mixed parts are independent of the first-order parts, hostile operands (exact-zero real parts, exact 1, absent parts). Every operation form must have been executed (74 forms) or the run is inconclusive.",
         "first-order error analysis (second-order products of residues are included); libm trusted to ~1 ulp; K=32 with observed max ratio ~6 on the unchanged tree", "DESIGN.md 3/C03"),
 "C04": ("differential monitor: one generated program through ~60 types x 2 random seedings; every result part is keyed by the partial derivative it represents and all values of the same derivative must agree within the routes' tracked bounds; static vs dynamic bitwise; NDERIV per type",
         "Runtime differential monitoring: ~3e6 (quick) / ~1.6e8 (thorough) pairwise agreements between types, nestings (depth <= 3), f32/f64 and static/dynamic storage on first, second, third and mixed derivatives of random programs; no model value enters the verdict (the model only supplies the error bound).",
         "tolerance K*(u_a e_a + u_b e_b), K=32; f32 routes use 2^-24; derivatives with relative bound > 1e-3 are skipped and counted", "DESIGN.md 3/C04"),
 "C05": ("reference-model monitor over the 20 public driver functions with generated asymmetric functions R^n -> R^m; per-index seeded scalar model algebras supply every expected entry; try_ variants checked for error pass-through and bitwise equality",
         "Runtime monitoring of seeding/extraction/orientation: ~8e4 (quick) / ~4e6 (thorough) driver calls over static lengths 1..6, dynamic 0..6, non-square Jacobians (static, dynamic, mixed), partial Hessians (m,n), all n^3 index triples of third_partial_derivative_vec, element types f64, f32 and Dual64, outputs that are true constants; the documented manual route (from_re(x).derivative(), derivative1/2/3) bit for bit against the drivers.",
         "expected values from the tracked model (K=32); libm trusted", "DESIGN.md 3/C05"),
 "C06": ("differential / metamorphic monitors: bitwise invariance of every program node's real part under perturbed derivative parts, agreement with the same program on plain floats, comparison/predicate/selection tables against the float answers, branch-trace equality, float instances vs std",
         "Runtime monitoring: ~7e5 (quick) / ~6e7 (thorough) observations over 42 types; perturbations include huge (1e300), tiny, zero and absent parts; comparison tables use equal / 1-ulp-apart / signed-zero / tiny / huge / NaN / infinite real parts on the field-compatible types; abs_diff_eq / relative_eq / ulps_eq with distinct tolerances, explicit max_ulps on operands k ulps apart, infinite / NaN operands and negative / NaN tolerances; predicates at +-0, +-inf, +-NaN on every type; real parts of every elementary function at the ends of its domain and far out; guarded programs record branch traces that must equal the float run's.",
         "single-float-operation nodes within 4 ulp of the float (0 observed), compositions within the tracked bound; signum(-0.0) excluded from float equality", "DESIGN.md 3/C06"),
 "C07": ("differential monitor on the vector-valued types: programs and compound-assignment histories run under all 2^k absent/explicit-zero representations of the zero parts of every input, node-by-node numerical identity; histories also against the non-assigning operators; direct monitor of the Derivative container (every operator x representation pair x shape vs explicit matrices, exact); drivers and conversions with absent vs explicit-zero constants",
         "Runtime monitoring: ~4e5 (quick) / ~2e7 (thorough) runs over 25 vector-valued types (static, dynamic, f32, nested); exhaustive 2^k enumeration per case for k <= 8; histories of up to 30 compound assignments starting from a constant accumulator; the container itself: 20 operator forms (by value / by reference / assigning, scalar, matrix product, tr_mul, unit seeds) x 10 representation pairs (absent, zeros, values, values with equal real parts) x 10 shapes (static, dynamic, empty) x float and Dual64 elements; jacobian/gradient/hessian/partial_hessian (static and dynamic) and is_in_subset/to_subset/try_convert with absent vs explicit-zero constants.",
         "finite operands; -0.0 == +0.0; container values are dyadic so that every comparison is exact", "DESIGN.md 3/C07, 7.6"),
 "C08": ("differential monitor: every generated operator / conversion implementation against the reference form &a op &b with lifted scalars, on every type",
         "Runtime monitoring: ~9e5 (quick) / ~9e7 (thorough) form comparisons over 43 types and 90 forms (owned/borrowed/mixed, assign, scalar, neg, inv, mul_add, Sum/Product by value and reference for lengths 0..5, From<F>, 14 FromPrimitive conversions, Zero/One, 19 FloatConst constants), with hostile real parts (exact 0 with non-zero parts, exact 1).",
         "exact comparison except scalar division (6 ulp) and the two num-traits default constants LOG10_2 / LOG2_10 (2 ulp)", "DESIGN.md 3/C08"),
 "C09": ("reference-model monitor for powi/powf/powd over stratified exponent classes + cross-agreement monitor (powi vs powf vs powd vs repeated multiplication vs exp(n ln x)); overflow sanitizer (overflow-checks build, panics caught) and wrapping build as companion pass",
         "Runtime monitoring: ~4e5 (quick) / ~3e7 (thorough) power evaluations per build profile over 42 types; exponents: every n in [-64,64], +-2^k(+-1) to 2^30, the i32 overflow frontiers, log-uniform to 2^30; real exponents 0/1/2/3/4 with +-3 ulp neighbours, negative, fractional, +-300, tiny; dual exponents with zero/one/two real part; negative bases for integer exponents.",
         "float powi loses ~|n|u/2 by repeated squaring, which the bound charges; libm pow trusted; K=32 (max observed ratio ~10)", "DESIGN.md 3/C09"),
 "C10": ("reference-model monitor on an enumerated set of special points: (function, point, type) exhaustive, derivative parts random; finite-and-correct verdict against analytically known Taylor coefficients",
         "Runtime monitoring: 165 (function, point) pairs x 47 types (orders up to 6) x 24 (quick) / 1200 (thorough) part draws: powi/powf at +-0, exp_m1/ln_1p at +-0, denormals and small normal arguments (1e-300 .. 1e-10), sph_j* at 0/denormal/eps neighbours/series switch, bessel_j* at 0/1e-300/1e-5/0.5/5 neighbours, atan2 on both axes with signed zeros and denormals.",
         "orders above 6 are outside the enumerated set; absolute floor at the denormal level", "DESIGN.md 3/C10"),
 "C14": ("reference-model monitor for bessel_j0/j1/j2 on all Copy f64 types over a stratified sweep of [-60,60] + special points, truth from linear combinations of libm jn; parity monitor",
         "Runtime monitoring: ~2e5 (quick) / ~5e6+ (thorough) evaluations over 20 types (orders up to 4, plus HyperDual<HyperDual64>), 11 argument regions incl. both sides of every branch point, absolute tolerance K*u*sum|terms| with AMP=8 per derivative order.",
         "libm jn trusted to ~1 ulp absolute; K=32, AMP=8 calibrated (max observed ratio ~7)", "DESIGN.md 3/C14"),
 "C15": ("reference-model monitor for sph_j0/j1/j2 on every type incl. plain floats over a stratified sweep of [-50,50] + special points; truth from Maclaurin series / series division; dual real part vs float instance",
         "Runtime monitoring: ~4e5 (quick) / ~3e7 (thorough) evaluations over 47 types (f32/f64, orders up to 6), 10 argument regions incl. denormals, both sides of the series switch, 10^-k, zeros of j_n, negative sweep.",
         "tolerance relative to |true part| plus the absolute level 1/max(|x|,1) with binomial growth per derivative; K=32 (max observed ratio ~10)", "DESIGN.md 3/C15"),
 "C11": ("differential monitors on the four field-compatible types: RealField constants vs the float constants (bitwise); every ComplexField/RealField method vs the generic dual operation it stands for (bitwise) and vs the float method on the real part; selection methods return an operand with its own parts; single-lane SimdValue round trips",
         "Runtime monitoring: ~6e5 (quick) / ~4e7 (thorough) method observations over 18 instantiations (f32/f64, static 1..4, dynamic), 75 constants/methods/monitors incl. powf/powc/log with dual arguments, copysign with signed zeros, min/max ties, hypot with a zero-real argument, clamp on a bound and with NaN, argument / signum at +-0, try_sqrt at the edge of its domain, predicates with non-finite derivative parts, special constants (e, 2, 10) as variable bases / exponents, replace by/into constants (absent parts), unchecked SIMD variants.",
         "real part within 0 ulp of the float method for single float operations, stated ulps for quotients/powers; hypot also against the model", "DESIGN.md 3/C11"),
 "C13": ("behavioural conversion monitor (lossless widening, identity round trip, membership <=> checked narrowing, per-part rounding, float lift/extract, nalgebra convert/try_convert/cast) + sanitizer lanes for the memory clause: Miri (UB, uninitialised reads, OOB, leaks) and valgrind memcheck on a dedicated workload incl. heap-owning nested element types",
         "Runtime monitoring + sanitizers: ~7e4 (quick) / ~7e6 (thorough) conversion observations over 27 type pairs, static dims 0..6 and dynamic 0..6, present/absent parts, non-symmetric storage; Miri 16 shards x 6 (quick) / 150 (thorough) workload cases, valgrind 8 x 150 / 16 x 4000 cases; the workload includes scalar and vector types over heap-owning inner numbers and identity conversions; float extraction at infinite / NaN / out-of-range real parts; a sanitizer report is a VIOLATION with the tool log as replay file.",
         "Miri cannot prove absence of UB on paths the workload does not drive; simba reports every finite f64 as member of f32", "DESIGN.md 3/C13"),
 "C16": ("event-stream monitor: a recording serde Serializer logs the call sequence of the derived Serialize impl (struct name, length, keys, leaf bits), checked against the documented part names and stored parts; a replaying Deserializer (map in order, map permuted, sequence) must restore every part bitwise; serde_json round trip on exactly representable values",
         "Runtime monitoring: ~3e4 (quick) / ~3e6 (thorough) streams over 24 scalar types and nestings (depth <= 3, f32/f64) with distinct exotic bit patterns per part (subnormals, -0.0, huge, tiny).",
         "the harness' Serializer/Deserializer implement the serde data model for structs of floats; JSON used only where the bare float round-trips", "DESIGN.md 3/C16"),
 "C18": ("grammar monitor: a recursive-descent parser written from the documented layout must consume every rendering completely and every number token must parse back bitwise to the stored part in its stored position; absent parts must not appear",
         "Runtime monitoring: ~9e4 (quick) / ~4.5e6 (thorough) renderings over 45 types (scalar, vector static/dynamic with dimensions 0..4, nested), all presence patterns reached by random masks, distinct exotic values per storage slot, non-symmetric matrices, nested vector types, dynamically sized parts with 1001..1700 entries.",
         "matrix-shaped parts of nested element types are not driven; Python repr is compared with the Rust rendering under C17", "DESIGN.md 3/C18"),
 "C12": ("identity monitor: outputs of the crate's LU/Jacobi routines and of nalgebra's generic decompositions over dual scalars are plugged into the defining identities (A x = b, A A^-1 = I, cofactor determinant, A V = V diag(lambda), V^T V = I, ordering, L L^T = M, norm) evaluated part by part in the reference model algebra; singular real parts must be reported",
         "Runtime monitoring: ~7e4 (quick) / ~3e6 (thorough) routine calls over sizes 1..6, condition numbers 1..100, five row orders (both permutation parities, ~800 distinct pivot-row sequences observed), 7 scalar types for the crate's routines and 5 field types for nalgebra, singular and hostile (reducible real part) classes, irreducible matrices with exact-zero entries, equal-diagonal tridiagonal matrices, power-of-two scalings (2^-60, 2^40), sizes 7..12 (one case in four), triangular real parts, uniform couplings, three memory layouts of the input, right-hand sides with zero real parts, hostile norm vectors.",
         "norm-wise tolerances K*n*kappa^min(order+1,3)*(order+1)^2*u (linear systems), K*n^2*(order+1)^2*u (eigen; 1e-9 for nalgebra whose own f64 residual is 2.5e-11); four listed findings K3-K6 (eigen decisions on real parts, in the crate's Jacobi routine and in nalgebra's symmetric_eigen)", "DESIGN.md 3/C12"),
 "C17": ("differential monitor across the CPython ABI: generated programs on the Python classes (operators, reflected operators, ** with int/float/dual, named methods, getters, repr, ndarray operands) and driver functions with Python callbacks, compared bit for bit with mirror functions that run the same program / driver directly on the Rust types inside the same extension module",
         "Runtime monitoring: ~4e4 (quick) / ~2e6 (thorough) Python values compared bitwise (parts, presence, repr == to_string) over the 8 constructible classes and the vector classes seen inside driver callbacks (gradient/hessian n = 1..12 incl. the dynamic fallback, jacobian m x n, partial_hessian (m,n) incl. dynamic, all scalar drivers, third_partial_derivative_vec index patterns), exception propagation and documented TypeErrors; ndarray operands (float and object) of every shape and memory layout (C, Fortran, transposed, reversed, strided, 0-d, empty) with index-wise values, operand-untouched and result-is-new-object checks; ** with Python ints beyond i32; callbacks returning list / tuple / object ndarray; float operands equal to the real part, augmented assignment (aliases must keep their value), keyword calls of every driver, nested from_re; a Rust panic surfacing as PanicException is a violation.",
         "one interpreter (CPython 3.11, numpy 2.x); no memory-safety lane across FFI (Miri cannot cross it, valgrind on CPython is noise-dominated)", "DESIGN.md 3/C17"),
 "C01": ("reference-model monitor: every call of every elementary function on every type vs power-series Taylor composition, stratified random inputs incl. wide bands (1e-30..1e30, exponentials to +-700) guarded by 'every contributing term representable'; history independence (fresh threads in shuffled orders, eight threads at once, a 32-bit type calling first); second oracle: mpmath at 50+ digits over the recorded event log",
         "Runtime monitoring: the real functions are executed on ~3e5 (quick) / ~1e7 (thorough) generated operands over 51 type instantiations and every argument region; each result part is compared with an independent truncated-Taylor-algebra model within 32*u*sum|terms|. Holds on what was observed, not a proof.",
         "trusts libm for g(x0); tolerance constant calibrated on the unchanged tree (max observed ratio < 15); operands for which a low power of |x| or 1/|x| leaves the float range are not monitored (DESIGN 7.7); error scale: DESIGN 7.8", "DESIGN.md 3/C01, 7.7"),
}
NOT_YET = "check not built yet (work in progress in this session)"

checks = []
for pid in ids:
    if pid in CHECKS:
        tech, text, note, ref = CHECKS[pid]
        checks.append({
            "property_id": pid,
            "quick_cmd": f"bin/check {pid} quick",
            "thorough_cmd": f"bin/check {pid} thorough",
            "evidence_file": f"/verif/evidence/{pid}.json",
            "replay_cmd_template": f"bin/check {pid} replay --replay {{path}}",
            "engine": "ndv",
            "level_claimed": {"category": "exploration", "text": text, "design_ref": ref},
            "level_note": note,
            "technique": tech,
        })
manifest = {
 "version": 1,
 "setup_cmd": "cd /verif/harness && CARGO_NET_OFFLINE=true cargo build --release --bins 2>&1 | tail -n 3 && cargo build --release -p ndv-miri 2>&1 | tail -n 1 && cd ndv-py && PYO3_PYTHON=/opt/veriftools/pyvenv/bin/python CARGO_NET_OFFLINE=true cargo build --release 2>&1 | tail -n 1",
 "hooks": {
   "guard": "num_dual_verif",
   "enable": "no source hooks are needed: every property is observable at the public API (public fields, Derivative::{some,none,unwrap_generic}, PartialEq/Debug of Derivative); the cfg name is reserved and unused",
   "baseline_off_cmd": "cd /repo && cargo test --workspace --no-fail-fast --offline",
   "source_commits": [],
   "add_only": True,
 },
 "engines": [
   {"name": "ndv", "path": "/verif/harness", "serves_properties": sorted(CHECKS.keys()),
    "kind_free_text": "Rust monitor binaries (one per property) that drive the real crate with generated workloads and compare against an executable reference model / differential oracles; sanitizer lanes via Miri and valgrind"},
 ],
 "checks": checks,
 "not_applicable": [{"property_id": pid, "reason": NOT_YET} for pid in ids if pid not in CHECKS],
 "notes": "Technique family: runtime monitoring and sanitizers. Exit codes of every check: 0 held on what was observed, 1 violation (VIOLATION line), 2 inconclusive (never a VIOLATION line). Known findings: /verif/KNOWN_FINDINGS.txt.",
}
json.dump(manifest, open(f"{ROOT}/MANIFEST.json", "w"), indent=1)
print("wrote MANIFEST.json with", len(checks), "checks;", len(manifest["not_applicable"]), "not claimed")
