//! Sanitizer workload (Miri / valgrind memcheck): drives the unsafe uninitialised-storage mapping
//! of `Derivative` (map_borrowed / try_map_borrowed) through every conversion route, the SIMD lane
//! view, and short arithmetic histories on dynamically sized numbers. Allocation-light so that it
//! fits Miri; the same binary runs 100x more cases natively under valgrind.
//! usage: ndv-miri <seed> <cases>

use nalgebra::{Const, DMatrix, DVector, Dyn, SVector, U1};
use num_dual::*;
use simba::scalar::{SubsetOf, SupersetOf};
use simba::simd::SimdValue;

struct Rng(u64);
impl Rng {
    fn next(&mut self) -> u64 {
        self.0 = self.0.wrapping_add(0x9E3779B97F4A7C15);
        let mut z = self.0;
        z = (z ^ (z >> 30)).wrapping_mul(0xBF58476D1CE4E5B9);
        z = (z ^ (z >> 27)).wrapping_mul(0x94D049BB133111EB);
        z ^ (z >> 31)
    }
    fn f(&mut self) -> f64 {
        ((self.next() >> 11) as f64 / (1u64 << 53) as f64) * 8.0 - 4.0
    }
    fn below(&mut self, n: usize) -> usize {
        (self.next() % n as u64) as usize
    }
    fn bool(&mut self) -> bool {
        self.next() & 1 == 1
    }
}

#[derive(Default)]
struct Counts {
    to_superset: u64,
    from_superset: u64,
    from_superset_unchecked: u64,
    is_in_subset: u64,
    nalgebra_convert: u64,
    nalgebra_try_convert: u64,
    cast: u64,
    nested_heap: u64,
    lanes: u64,
    histories: u64,
    map_borrowed_calls: u64,
    try_map_borrowed_calls: u64,
}

fn dvec64(r: &mut Rng, n: usize, present: bool) -> DualDVec64 {
    let eps = if present { Derivative::some(DVector::from_fn(n, |_, _| r.f())) } else { Derivative::none() };
    DualDVec64::new(r.f(), eps)
}
fn dvec32(r: &mut Rng, n: usize, present: bool) -> DualDVec32 {
    let eps = if present { Derivative::some(DVector::from_fn(n, |_, _| r.f() as f32)) } else { Derivative::none() };
    DualDVec32::new(r.f() as f32, eps)
}
fn d2vec64(r: &mut Rng, n: usize, p1: bool, p2: bool) -> Dual2DVec64 {
    let v1 = if p1 { Derivative::some(nalgebra::RowDVector::from_fn(n, |_, _| r.f())) } else { Derivative::none() };
    let v2 = if p2 { Derivative::some(DMatrix::from_fn(n, n, |_, _| r.f())) } else { Derivative::none() };
    Dual2DVec64::new(r.f(), v1, v2)
}
fn d2vec32(r: &mut Rng, n: usize, p1: bool, p2: bool) -> Dual2DVec32 {
    let v1 = if p1 { Derivative::some(nalgebra::RowDVector::from_fn(n, |_, _| r.f() as f32)) } else { Derivative::none() };
    let v2 = if p2 { Derivative::some(DMatrix::from_fn(n, n, |_, _| r.f() as f32)) } else { Derivative::none() };
    Dual2DVec32::new(r.f() as f32, v1, v2)
}
fn svec64<const N: usize>(r: &mut Rng, present: bool) -> DualSVec64<N> {
    let eps = if present { Derivative::some(SVector::<f64, N>::from_fn(|_, _| r.f())) } else { Derivative::none() };
    DualSVec64::<N>::new(r.f(), eps)
}
fn svec32<const N: usize>(r: &mut Rng, present: bool) -> DualSVec32<N> {
    let eps = if present { Derivative::some(SVector::<f32, N>::from_fn(|_, _| r.f() as f32)) } else { Derivative::none() };
    DualSVec32::<N>::new(r.f() as f32, eps)
}

fn conversions(r: &mut Rng, c: &mut Counts) {
    // scalar types
    let a = Dual32::new(r.f() as f32, r.f() as f32);
    let w: Dual64 = a.to_superset();
    assert_eq!(w.eps, a.eps as f64);
    let back = Dual32::from_superset(&w).unwrap();
    assert_eq!(back.eps, a.eps);
    let b = Dual2_64::new(r.f(), r.f(), r.f());
    let n: Dual2_32 = Dual2_32::from_superset_unchecked(&b);
    assert_eq!(n.v2, b.v2 as f32);
    assert!(<Dual2_32 as SubsetOf<Dual2_64>>::is_in_subset(&b));
    c.to_superset += 1;
    c.from_superset += 1;
    c.from_superset_unchecked += 1;
    c.is_in_subset += 1;
    // vector types, dynamic, dims 0..5, present / absent
    let n = r.below(6);
    let p = r.bool();
    let x32 = dvec32(r, n, p);
    let x64: DualDVec64 = x32.to_superset();
    c.to_superset += 1;
    c.map_borrowed_calls += p as u64;
    assert_eq!(x64.re, x32.re as f64);
    assert_eq!(x64.eps == Derivative::none(), !p);
    let y = DualDVec32::from_superset(&x64);
    c.from_superset += 1;
    c.try_map_borrowed_calls += p as u64;
    let y = y.expect("checked narrowing of a representable number failed");
    assert_eq!(y.eps == Derivative::none(), !p);
    let pb = r.bool();
    let y64 = dvec64(r, n, pb);
    let z = DualDVec32::from_superset_unchecked(&y64);
    c.from_superset_unchecked += 1;
    assert_eq!(z.re, y64.re as f32);
    assert!(<DualDVec32 as SubsetOf<DualDVec64>>::is_in_subset(&y64));
    c.is_in_subset += 1;
    // second order, dynamic
    let (p1, p2) = (r.bool(), r.bool());
    let h32 = d2vec32(r, n, p1, p2);
    let h64: Dual2DVec64 = h32.to_superset();
    c.to_superset += 1;
    c.map_borrowed_calls += p1 as u64 + p2 as u64;
    let hb = Dual2DVec32::from_superset(&h64).expect("checked narrowing failed");
    c.from_superset += 1;
    c.try_map_borrowed_calls += p1 as u64 + p2 as u64;
    assert_eq!(hb.v2 == Derivative::none(), !p2);
    assert_eq!(hb.v1 == Derivative::none(), !p1);
    let (q1, q2) = (r.bool(), r.bool());
    let g64 = d2vec64(r, n, q1, q2);
    let _g32 = Dual2DVec32::from_superset_unchecked(&g64);
    c.from_superset_unchecked += 1;
    // static sizes incl. 0
    let pb = r.bool();
    let s0 = svec32::<0>(r, pb);
    let _: DualSVec64<0> = s0.to_superset();
    let pb = r.bool();
    let s3 = svec64::<3>(r, pb);
    let t3 = DualSVec32::<3>::from_superset(&s3).expect("checked narrowing failed");
    let _: DualSVec64<3> = t3.to_superset();
    let s6 = svec32::<6>(r, true);
    let w6: DualSVec64<6> = s6.to_superset();
    assert_eq!(w6.eps.clone().unwrap_generic(Const::<6>, U1)[5], s6.eps.unwrap_generic(Const::<6>, U1)[5] as f64);
    c.to_superset += 3;
    c.from_superset += 1;
    // floats in and out
    let k: DualDVec64 = <DualDVec64 as SupersetOf<f64>>::from_subset(&2.5);
    assert_eq!(k.eps, Derivative::none());
    let re: f64 = <DualDVec64 as SupersetOf<f64>>::to_subset_unchecked(&x64);
    assert_eq!(re, x64.re);
    let k2: Dual2DVec32 = <Dual2DVec32 as SupersetOf<f32>>::from_subset(&1.5f32);
    assert_eq!(k2.re, 1.5);
    // nalgebra convert / try_convert / cast on containers of dual numbers
    let len = 1 + r.below(3);
    let v32 = DVector::from_fn(len, |_, _| {
        let pb = r.bool();
        dvec32(r, n, pb)
    });
    let v64: DVector<DualDVec64> = nalgebra::convert(v32.clone());
    c.nalgebra_convert += 1;
    let vb: Option<DVector<DualDVec32>> = nalgebra::try_convert(v64.clone());
    c.nalgebra_try_convert += 1;
    let vb = vb.expect("try_convert of representable numbers failed");
    assert_eq!(vb[0].re, v32[0].re);
    let m = DMatrix::from_fn(2, 2, |_, _| {
        let (k, q1, q2) = (r.below(3), r.bool(), r.bool());
        d2vec32(r, k, q1, q2)
    });
    let m64: DMatrix<Dual2DVec64> = m.clone().cast();
    c.cast += 1;
    assert_eq!(m64[(1, 0)].re, m[(1, 0)].re as f64);
    let sv = SVector::<DualSVec32<2>, 3>::from_fn(|_, _| {
        let pb = r.bool();
        svec32::<2>(r, pb)
    });
    let sv64: SVector<DualSVec64<2>, 3> = nalgebra::convert_ref(&sv);
    c.nalgebra_convert += 1;
    assert_eq!(sv64[2].re, sv[2].re as f64);
    let fq = nalgebra::Vector3::new(1.0f64, 2.0, 3.0);
    let dq: nalgebra::Vector3<Dual2DVec64> = fq.cast();
    assert_eq!(dq[1].re, 2.0);
    c.cast += 1;
    // element types that own heap memory: a forgotten or doubled drop in the MaybeUninit
    // mapping shows up as a leak / double free
    let inner = |r: &mut Rng| {
        let (k, pb) = (1 + r.below(3), r.bool());
        dvec32(r, k, pb)
    };
    let nre = inner(r);
    let nlen = 1 + r.below(3);
    let nested = DualVec::<DualDVec32, f32, Dyn>::new(nre, Derivative::some(DVector::from_fn(nlen, |_, _| inner(r))));
    let nested64: DualVec<DualDVec64, f64, Dyn> = nested.to_superset();
    c.nested_heap += 1;
    let nb = DualVec::<DualDVec32, f32, Dyn>::from_superset(&nested64).expect("nested checked narrowing failed");
    assert_eq!(nb.re.re, nested.re.re);
    let nu = DualVec::<DualDVec32, f32, Dyn>::from_superset_unchecked(&nested64);
    assert_eq!(nu.re.re, nested.re.re);
    c.nested_heap += 2;
    let n2re = inner(r);
    let n2v1 = Derivative::some(nalgebra::RowSVector::<DualDVec32, 2>::from_fn(|_, _| inner(r)));
    let n2v2 = if r.bool() { Derivative::some(nalgebra::SMatrix::<DualDVec32, 2, 2>::from_fn(|_, _| inner(r))) } else { Derivative::none() };
    let nested2 = Dual2Vec::<DualDVec32, f32, Const<2>>::new(n2re, n2v1, n2v2);
    let n264: Dual2Vec<DualDVec64, f64, Const<2>> = nested2.to_superset();
    let _ = Dual2Vec::<DualDVec32, f32, Const<2>>::from_superset(&n264).expect("nested checked narrowing failed");
    c.nested_heap += 2;
    // the scalar types over heap-owning inner numbers, widening, narrowing and the identity
    // conversion (same type on both sides): every result must own its own buffers
    {
        use num_dual::{Dual, Dual2};
        let d32 = Dual::<DualDVec32, f32>::new(inner(r), inner(r));
        let d64: Dual<DualDVec64, f64> = d32.to_superset();
        let d64b: Dual<DualDVec64, f64> = d64.to_superset();
        let d32b = Dual::<DualDVec32, f32>::from_superset(&d64b).expect("Dual over DualDVec: narrowing failed");
        let d32c: Dual<DualDVec32, f32> = d32b.to_superset();
        assert_eq!(d32c.re.re, d32.re.re);
        assert_eq!(d64b.eps.re, d64.eps.re);
        let e32 = Dual2::<DualDVec32, f32>::new(inner(r), inner(r), inner(r));
        let e64: Dual2<DualDVec64, f64> = e32.to_superset();
        let e64b: Dual2<DualDVec64, f64> = e64.to_superset();
        let e64c: Dual2<DualDVec64, f64> = Dual2::<DualDVec64, f64>::from_superset_unchecked(&e64b);
        let e32b = Dual2::<DualDVec32, f32>::from_superset(&e64c).expect("Dual2 over DualDVec: narrowing failed");
        let e32c: Dual2<DualDVec32, f32> = e32b.to_superset();
        assert_eq!(e32c.v2.re, e32.v2.re);
        assert_eq!(e64b.v1.re, e64.v1.re);
        drop(e64);
        assert_eq!(e64b.v2.re as f32, e32.v2.re);
        // identity conversions of the vector types
        let idv: DualVec<DualDVec64, f64, Dyn> = nested64.to_superset();
        assert_eq!(idv.re.re, nested64.re.re);
        let id2: Dual2Vec<DualDVec64, f64, Const<2>> = n264.to_superset();
        assert_eq!(id2.re.re, n264.re.re);
        let idx: DualDVec64 = x64_identity(r);
        let _ = idx;
        c.nested_heap += 8;
    }
}

fn x64_identity(r: &mut Rng) -> DualDVec64 {
    let a = dvec64(r, 3, true);
    let b: DualDVec64 = a.to_superset();
    let c2: DualDVec64 = DualDVec64::from_superset(&b).expect("identity narrowing failed");
    assert_eq!(c2.re, a.re);
    c2
}

fn lanes(r: &mut Rng, c: &mut Counts) {
    let n = r.below(4);
    let (pa, pb) = (r.bool(), r.bool());
    let a = dvec64(r, n, pa);
    let b = dvec64(r, n, pb);
    let s = DualDVec64::splat(a.clone());
    assert_eq!(s.re, a.re);
    let e = s.extract(0);
    assert_eq!(e.eps, a.eps);
    let eu = unsafe { s.extract_unchecked(0) };
    assert_eq!(eu.re, a.re);
    let mut m = a.clone();
    m.replace(0, b.clone());
    assert_eq!(m.re, b.re);
    let mut mu = a.clone();
    unsafe { mu.replace_unchecked(0, b.clone()) };
    assert_eq!(mu.re, b.re);
    let t = a.clone().select(true, b.clone());
    assert_eq!(t.re, a.re);
    let f = a.clone().select(false, b.clone());
    assert_eq!(f.re, b.re);
    let (q1, q2, q3, q4) = (r.bool(), r.bool(), r.bool(), r.bool());
    let h = d2vec64(r, n, q1, q2);
    let g = d2vec64(r, n, q3, q4);
    let mut hh = Dual2DVec64::splat(h.clone());
    hh.replace(0, g.clone());
    assert_eq!(hh.extract(0).re, g.re);
    let q = h.clone().select(false, g);
    let _ = q.extract(0);
    let (pa, pb) = (r.bool(), r.bool());
    let st = svec64::<3>(r, pa);
    let mut st2 = DualSVec64::<3>::splat(st);
    st2.replace(0, svec64::<3>(r, pb));
    let _ = st2.extract(0);
    c.lanes += 14;
    c.map_borrowed_calls += 4;
}

fn histories(r: &mut Rng, c: &mut Counts) {
    let n = 1 + r.below(3);
    let x = dvec64(r, n, true);
    let pb = r.bool();
    let y = dvec64(r, n, pb);
    let mut acc = DualDVec64::from_re(r.f());
    for _ in 0..6 {
        match r.below(6) {
            0 => acc += x.clone(),
            1 => acc -= y.clone(),
            2 => acc *= x.clone(),
            3 => acc = acc.clone() / (y.clone() * y.clone() + 1.5),
            4 => acc -= 0.75,
            _ => acc = (acc.clone() * 0.5).sin() + x.clone().powi(2),
        }
    }
    assert!(acc.re.is_finite());
    let (q1, q2) = (r.bool(), r.bool());
    let h = d2vec64(r, n, q1, q2);
    let mut a2 = Dual2DVec64::from_re(1.25);
    a2 -= h.clone();
    a2 *= h.clone();
    a2 = a2.exp() - h.recip() * 0.5;
    let _ = a2.re;
    let hv = HyperDualDVec64::new(r.f(), Derivative::some(DVector::from_fn(n, |_, _| r.f())), Derivative::none(), Derivative::none());
    let hw = HyperDualDVec64::new(r.f(), Derivative::none(), Derivative::some(nalgebra::RowDVector::from_fn(2, |_, _| r.f())), Derivative::none());
    let p = (hv.clone() * hw.clone() - hv.clone() / (hw.clone() * hw.clone() + 2.0)).cos();
    assert!(p.re.is_finite());
    c.histories += 3;
}

fn main() {
    let args: Vec<String> = std::env::args().collect();
    let seed: u64 = args.get(1).and_then(|s| s.parse().ok()).unwrap_or(1);
    let cases: u64 = args.get(2).and_then(|s| s.parse().ok()).unwrap_or(20);
    let mut r = Rng(seed.wrapping_mul(0x2545F4914F6CDD1D) ^ 0xABCDEF);
    let mut c = Counts::default();
    for _ in 0..cases {
        conversions(&mut r, &mut c);
        lanes(&mut r, &mut c);
        histories(&mut r, &mut c);
    }
    println!(
        "SANITIZER-WORKLOAD-OK seed={} cases={} to_superset={} from_superset={} from_superset_unchecked={} is_in_subset={} nalgebra_convert={} nalgebra_try_convert={} cast={} nested_heap={} lanes={} histories={} map_borrowed_min={} try_map_borrowed_min={}",
        seed, cases, c.to_superset, c.from_superset, c.from_superset_unchecked, c.is_in_subset, c.nalgebra_convert, c.nalgebra_try_convert, c.cast, c.nested_heap, c.lanes, c.histories, c.map_borrowed_calls, c.try_map_borrowed_calls
    );
}
