//! Adapter between the crate's real number types and flat lists of parts.
//! Canonical flattening: outer level slot-major (field order of the struct, matrices
//! column-major), inner number minor — the same order as `Shape::slot_exponents`.
//! Only public API is used: public fields, `new`, `Derivative::{some,none,unwrap_generic}`,
//! and `PartialEq` against `Derivative::none()` to read presence.

use crate::basis::{Kind, Shape};
use nalgebra::allocator::Allocator;
use nalgebra::{DefaultAllocator, Dim, OMatrix, U1};
use num_dual::*;
use num_traits::Float;

/// decides, for an optional part whose values are all zero, whether to build it as absent
pub trait AbsentChooser {
    fn absent(&mut self, all_zero: bool) -> bool;
}
/// every part present (explicit zeros)
pub struct AllPresent;
impl AbsentChooser for AllPresent {
    fn absent(&mut self, _all_zero: bool) -> bool {
        false
    }
}
/// all-zero parts absent
pub struct ZeroAbsent;
impl AbsentChooser for ZeroAbsent {
    fn absent(&mut self, all_zero: bool) -> bool {
        all_zero
    }
}
/// the i-th all-zero optional part is absent iff bit i of the mask is set
pub struct MaskAbsent {
    pub mask: u64,
    pub seen: u32,
}
impl MaskAbsent {
    pub fn new(mask: u64) -> Self {
        MaskAbsent { mask, seen: 0 }
    }
}
impl AbsentChooser for MaskAbsent {
    fn absent(&mut self, all_zero: bool) -> bool {
        if !all_zero {
            return false;
        }
        let bit = (self.mask >> (self.seen % 64)) & 1 == 1;
        self.seen += 1;
        bit
    }
}

pub trait Jetty: DualNum<<Self as Jetty>::F> + Clone + 'static {
    type F: DualNumFloat + Into<f64>;
    /// shape of this type; `Dyn` dimensions take their value from `dynd`
    fn shape(dynd: (usize, usize)) -> Shape;
    /// build a value from flat parts (`vals[*pos..]`), advancing `pos`
    fn build(shape: &Shape, vals: &[f64], pos: &mut usize, ch: &mut dyn AbsentChooser) -> Self;
    /// append all parts (absent parts as zeros) and the presence flag of every optional part met
    fn flatten(&self, shape: &Shape, out: &mut Vec<f64>, presence: &mut Vec<bool>);
    const IS_F32: bool;
    // operator forms that the generic interface does not promise (`&a op &b`, `&a op b`, `-&a`)
    fn rr_add(&self, o: &Self) -> Self;
    fn rr_sub(&self, o: &Self) -> Self;
    fn rr_mul(&self, o: &Self) -> Self;
    fn rr_div(&self, o: &Self) -> Self;
    fn rv_add(&self, o: Self) -> Self;
    fn rv_sub(&self, o: Self) -> Self;
    fn rv_mul(&self, o: Self) -> Self;
    fn rv_div(&self, o: Self) -> Self;
    fn r_neg(&self) -> Self;
}

macro_rules! ref_ops {
    () => {
        fn rr_add(&self, o: &Self) -> Self {
            self + o
        }
        fn rr_sub(&self, o: &Self) -> Self {
            self - o
        }
        fn rr_mul(&self, o: &Self) -> Self {
            self * o
        }
        fn rr_div(&self, o: &Self) -> Self {
            self / o
        }
        fn rv_add(&self, o: Self) -> Self {
            self + o
        }
        fn rv_sub(&self, o: Self) -> Self {
            self - o
        }
        fn rv_mul(&self, o: Self) -> Self {
            self * o
        }
        fn rv_div(&self, o: Self) -> Self {
            self / o
        }
        fn r_neg(&self) -> Self {
            -self
        }
    };
}

pub fn build_all<T: Jetty>(shape: &Shape, vals: &[f64]) -> T {
    let mut pos = 0;
    let r = T::build(shape, vals, &mut pos, &mut AllPresent);
    assert_eq!(pos, vals.len());
    r
}
pub fn build_with<T: Jetty>(shape: &Shape, vals: &[f64], ch: &mut dyn AbsentChooser) -> T {
    let mut pos = 0;
    let r = T::build(shape, vals, &mut pos, ch);
    assert_eq!(pos, vals.len());
    r
}
pub fn parts<T: Jetty>(x: &T, shape: &Shape) -> Vec<f64> {
    let mut out = Vec::with_capacity(shape.nslots());
    let mut p = Vec::new();
    x.flatten(shape, &mut out, &mut p);
    out
}
pub fn parts_presence<T: Jetty>(x: &T, shape: &Shape) -> (Vec<f64>, Vec<bool>) {
    let mut out = Vec::with_capacity(shape.nslots());
    let mut p = Vec::new();
    x.flatten(shape, &mut out, &mut p);
    (out, p)
}
pub fn unit_roundoff<T: Jetty>() -> f64 {
    if T::IS_F32 {
        (2.0f64).powi(-24)
    } else {
        (2.0f64).powi(-53)
    }
}

macro_rules! leaf {
    ($f:ty, $is32:expr) => {
        impl Jetty for $f {
            type F = $f;
            const IS_F32: bool = $is32;
            ref_ops!();
            fn shape(_d: (usize, usize)) -> Shape {
                Shape::Leaf
            }
            fn build(_s: &Shape, vals: &[f64], pos: &mut usize, _ch: &mut dyn AbsentChooser) -> Self {
                let v = vals[*pos] as $f;
                *pos += 1;
                v
            }
            fn flatten(&self, _s: &Shape, out: &mut Vec<f64>, _p: &mut Vec<bool>) {
                out.push(*self as f64)
            }
        }
    };
}
leaf!(f64, false);
leaf!(f32, true);

fn inner_of(shape: &Shape) -> (&Kind, &Shape) {
    match shape {
        Shape::Level(k, i) => (k, i),
        Shape::Leaf => panic!("shape mismatch: leaf where a level was expected"),
    }
}

macro_rules! scalar_level {
    ($ty:ident, $kind:expr, [$($field:ident),*]) => {
        impl<T: Jetty> Jetty for $ty<T, T::F> {
            type F = T::F;
            const IS_F32: bool = T::IS_F32;
            ref_ops!();
            fn shape(d: (usize, usize)) -> Shape {
                Shape::level($kind, T::shape(d))
            }
            fn build(shape: &Shape, vals: &[f64], pos: &mut usize, ch: &mut dyn AbsentChooser) -> Self {
                let (_, inner) = inner_of(shape);
                let re = T::build(inner, vals, pos, ch);
                $(let $field = T::build(inner, vals, pos, ch);)*
                $ty::new(re, $($field),*)
            }
            fn flatten(&self, shape: &Shape, out: &mut Vec<f64>, p: &mut Vec<bool>) {
                let (_, inner) = inner_of(shape);
                self.re.flatten(inner, out, p);
                $(self.$field.flatten(inner, out, p);)*
            }
        }
    };
}
scalar_level!(Dual, Kind::Dual, [eps]);
scalar_level!(Dual2, Kind::Dual2, [v1, v2]);
scalar_level!(Dual3, Kind::Dual3, [v1, v2, v3]);
scalar_level!(HyperDual, Kind::HyperDual, [eps1, eps2, eps1eps2]);
scalar_level!(
    HyperHyperDual,
    Kind::HyperHyperDual,
    [eps1, eps2, eps3, eps1eps2, eps1eps3, eps2eps3, eps1eps2eps3]
);

/// build one optional matrix part of `r x c` inner numbers
fn build_deriv<T: Jetty, R: Dim, C: Dim>(
    r: usize,
    c: usize,
    inner: &Shape,
    vals: &[f64],
    pos: &mut usize,
    ch: &mut dyn AbsentChooser,
) -> Derivative<T, T::F, R, C>
where
    DefaultAllocator: Allocator<R, C>,
{
    let cnt = r * c * inner.nslots();
    let all_zero = vals[*pos..*pos + cnt].iter().all(|v| *v == 0.0);
    if ch.absent(all_zero) {
        *pos += cnt;
        return Derivative::none();
    }
    let mut elems = Vec::with_capacity(r * c);
    for _ in 0..r * c {
        elems.push(T::build(inner, vals, pos, ch));
    }
    Derivative::some(OMatrix::from_iterator_generic(R::from_usize(r), C::from_usize(c), elems))
}

fn flatten_deriv<T: Jetty, R: Dim, C: Dim>(
    d: &Derivative<T, T::F, R, C>,
    r: usize,
    c: usize,
    inner: &Shape,
    out: &mut Vec<f64>,
    p: &mut Vec<bool>,
) where
    DefaultAllocator: Allocator<R, C>,
{
    let present = *d != Derivative::none();
    p.push(present);
    if present {
        let m = d.clone().unwrap_generic(R::from_usize(r), C::from_usize(c));
        assert_eq!(m.shape(), (r, c), "stored derivative has an unexpected shape");
        for e in m.iter() {
            e.flatten(inner, out, p);
        }
    } else {
        for _ in 0..r * c * inner.nslots() {
            out.push(0.0);
        }
    }
}

impl<T: Jetty, D: Dim> Jetty for DualVec<T, T::F, D>
where
    DefaultAllocator: Allocator<D> + Allocator<U1, D> + Allocator<D, D>,
{
    type F = T::F;
    const IS_F32: bool = T::IS_F32;
    ref_ops!();
    fn shape(d: (usize, usize)) -> Shape {
        let n = D::try_to_usize().unwrap_or(d.0);
        Shape::level(Kind::DualVec(n), T::shape(d))
    }
    fn build(shape: &Shape, vals: &[f64], pos: &mut usize, ch: &mut dyn AbsentChooser) -> Self {
        let (k, inner) = inner_of(shape);
        let n = match k {
            Kind::DualVec(n) => *n,
            _ => panic!("shape mismatch"),
        };
        let re = T::build(inner, vals, pos, ch);
        let eps = build_deriv::<T, D, U1>(n, 1, inner, vals, pos, ch);
        DualVec::new(re, eps)
    }
    fn flatten(&self, shape: &Shape, out: &mut Vec<f64>, p: &mut Vec<bool>) {
        let (k, inner) = inner_of(shape);
        let n = match k {
            Kind::DualVec(n) => *n,
            _ => panic!("shape mismatch"),
        };
        self.re.flatten(inner, out, p);
        flatten_deriv(&self.eps, n, 1, inner, out, p);
    }
}

impl<T: Jetty, D: Dim> Jetty for Dual2Vec<T, T::F, D>
where
    DefaultAllocator: Allocator<D> + Allocator<U1, D> + Allocator<D, D>,
{
    type F = T::F;
    const IS_F32: bool = T::IS_F32;
    ref_ops!();
    fn shape(d: (usize, usize)) -> Shape {
        let n = D::try_to_usize().unwrap_or(d.0);
        Shape::level(Kind::Dual2Vec(n), T::shape(d))
    }
    fn build(shape: &Shape, vals: &[f64], pos: &mut usize, ch: &mut dyn AbsentChooser) -> Self {
        let (k, inner) = inner_of(shape);
        let n = match k {
            Kind::Dual2Vec(n) => *n,
            _ => panic!("shape mismatch"),
        };
        let re = T::build(inner, vals, pos, ch);
        let v1 = build_deriv::<T, U1, D>(1, n, inner, vals, pos, ch);
        let v2 = build_deriv::<T, D, D>(n, n, inner, vals, pos, ch);
        Dual2Vec::new(re, v1, v2)
    }
    fn flatten(&self, shape: &Shape, out: &mut Vec<f64>, p: &mut Vec<bool>) {
        let (k, inner) = inner_of(shape);
        let n = match k {
            Kind::Dual2Vec(n) => *n,
            _ => panic!("shape mismatch"),
        };
        self.re.flatten(inner, out, p);
        flatten_deriv(&self.v1, 1, n, inner, out, p);
        flatten_deriv(&self.v2, n, n, inner, out, p);
    }
}

impl<T: Jetty, M: Dim, N: Dim> Jetty for HyperDualVec<T, T::F, M, N>
where
    DefaultAllocator: Allocator<M>
        + Allocator<N>
        + Allocator<M, N>
        + Allocator<U1, N>
        + Allocator<U1, M>
        + Allocator<M, M>
        + Allocator<N, N>,
{
    type F = T::F;
    const IS_F32: bool = T::IS_F32;
    ref_ops!();
    fn shape(d: (usize, usize)) -> Shape {
        let m = M::try_to_usize().unwrap_or(d.0);
        let n = N::try_to_usize().unwrap_or(d.1);
        Shape::level(Kind::HyperDualVec(m, n), T::shape(d))
    }
    fn build(shape: &Shape, vals: &[f64], pos: &mut usize, ch: &mut dyn AbsentChooser) -> Self {
        let (k, inner) = inner_of(shape);
        let (m, n) = match k {
            Kind::HyperDualVec(m, n) => (*m, *n),
            _ => panic!("shape mismatch"),
        };
        let re = T::build(inner, vals, pos, ch);
        let e1 = build_deriv::<T, M, U1>(m, 1, inner, vals, pos, ch);
        let e2 = build_deriv::<T, U1, N>(1, n, inner, vals, pos, ch);
        let e12 = build_deriv::<T, M, N>(m, n, inner, vals, pos, ch);
        HyperDualVec::new(re, e1, e2, e12)
    }
    fn flatten(&self, shape: &Shape, out: &mut Vec<f64>, p: &mut Vec<bool>) {
        let (k, inner) = inner_of(shape);
        let (m, n) = match k {
            Kind::HyperDualVec(m, n) => (*m, *n),
            _ => panic!("shape mismatch"),
        };
        self.re.flatten(inner, out, p);
        flatten_deriv(&self.eps1, m, 1, inner, out, p);
        flatten_deriv(&self.eps2, 1, n, inner, out, p);
        flatten_deriv(&self.eps1eps2, m, n, inner, out, p);
    }
}

/// f64 -> the float type of T, via f64 (exact for values that are representable)
pub fn f_of<T: Jetty>(x: f64) -> T::F {
    <T::F as num_traits::NumCast>::from(x).unwrap()
}
pub fn to_f64<F: Float + Into<f64>>(x: F) -> f64 {
    x.into()
}
