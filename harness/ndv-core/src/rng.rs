//! Deterministic PRNG (splitmix64 seeding + xoshiro256**). Every case is reproducible from
//! (seed, stream, index).

#[derive(Clone, Debug)]
pub struct Rng {
    s: [u64; 4],
}

fn splitmix(x: &mut u64) -> u64 {
    *x = x.wrapping_add(0x9E3779B97F4A7C15);
    let mut z = *x;
    z = (z ^ (z >> 30)).wrapping_mul(0xBF58476D1CE4E5B9);
    z = (z ^ (z >> 27)).wrapping_mul(0x94D049BB133111EB);
    z ^ (z >> 31)
}

impl Rng {
    pub fn new(seed: u64) -> Self {
        let mut x = seed;
        let s = [splitmix(&mut x), splitmix(&mut x), splitmix(&mut x), splitmix(&mut x)];
        Rng { s }
    }
    /// independent stream derived from (seed, a, b)
    pub fn stream(seed: u64, a: u64, b: u64) -> Self {
        let mut x = seed ^ a.wrapping_mul(0xD1342543DE82EF95) ^ b.wrapping_mul(0xA24BAED4963EE407);
        let _ = splitmix(&mut x);
        Rng::new(splitmix(&mut x))
    }
    pub fn next_u64(&mut self) -> u64 {
        let r = self.s[1].wrapping_mul(5).rotate_left(7).wrapping_mul(9);
        let t = self.s[1] << 17;
        self.s[2] ^= self.s[0];
        self.s[3] ^= self.s[1];
        self.s[1] ^= self.s[2];
        self.s[0] ^= self.s[3];
        self.s[2] ^= t;
        self.s[3] = self.s[3].rotate_left(45);
        r
    }
    /// uniform in [0,1)
    pub fn f01(&mut self) -> f64 {
        (self.next_u64() >> 11) as f64 * (1.0 / (1u64 << 53) as f64)
    }
    pub fn range(&mut self, lo: f64, hi: f64) -> f64 {
        lo + (hi - lo) * self.f01()
    }
    pub fn below(&mut self, n: usize) -> usize {
        if n == 0 {
            return 0;
        }
        (self.next_u64() % n as u64) as usize
    }
    pub fn int(&mut self, lo: i64, hi: i64) -> i64 {
        lo + (self.next_u64() % ((hi - lo + 1) as u64)) as i64
    }
    pub fn bool(&mut self) -> bool {
        self.next_u64() & 1 == 1
    }
    pub fn chance(&mut self, p: f64) -> bool {
        self.f01() < p
    }
    pub fn sign(&mut self) -> f64 {
        if self.bool() {
            1.0
        } else {
            -1.0
        }
    }
    pub fn choose<'a, T>(&mut self, xs: &'a [T]) -> &'a T {
        &xs[self.below(xs.len())]
    }
    /// a "generic" derivative-part value: non-unit, either sign, a few magnitudes
    pub fn part(&mut self) -> f64 {
        let m = match self.below(8) {
            0 => self.range(0.01, 0.1),
            1 => self.range(2.0, 9.0),
            _ => self.range(0.2, 2.0),
        };
        m * self.sign()
    }
    /// log-uniform magnitude in [lo,hi]
    pub fn logu(&mut self, lo: f64, hi: f64) -> f64 {
        (self.range(lo.ln(), hi.ln())).exp()
    }
    pub fn shuffle<T>(&mut self, xs: &mut [T]) {
        for i in (1..xs.len()).rev() {
            let j = self.below(i + 1);
            xs.swap(i, j);
        }
    }
}
