//! Random programs (expression DAGs) over the generic interface, with three interpreters:
//! generic over the real types (code under test), the tracked reference model, and plain f64
//! (used by the generator to stay inside every operation's domain, and for branch traces).

use crate::basis::Basis;
use crate::jetty::Jetty;
use crate::model::Jet;
use crate::rng::Rng;
use crate::taylor::Func;
use crate::track::Tr;

use num_traits::FloatConst;
#[allow(unused_imports)]
use num_dual::DualNum as _;
use serde_json::{json, Value};

#[derive(Clone, Copy, Debug, PartialEq)]
pub enum BinOp {
    Add,
    Sub,
    Mul,
    Div,
}
#[derive(Clone, Copy, Debug, PartialEq)]
pub enum Form {
    VV,
    VR,
    RV,
    RR,
}
#[derive(Clone, Copy, Debug, PartialEq)]
pub enum Cmp {
    Lt,
    Gt,
}

#[derive(Clone, Debug, PartialEq)]
pub enum Node {
    Input(usize),
    Const(f64),
    ConstPrim(i32),
    FloatConst(u8),
    Zero,
    One,
    Un(Func, usize),
    SinCos(usize, bool),
    Neg(usize),
    Inv(usize),
    Abs(usize),
    Bin(BinOp, usize, usize, Form),
    Scalar(BinOp, usize, f64),
    Assign(BinOp, usize, usize),
    AssignScalar(BinOp, usize, f64),
    MulAdd(usize, usize, usize),
    Powd(usize, usize),
    Atan2(usize, usize),
    Sum(Vec<usize>, bool),
    Product(Vec<usize>, bool),
    Select(Cmp, usize, usize, usize, usize),
}

impl Node {
    pub fn opname(&self) -> String {
        match self {
            Node::Input(_) => "input".into(),
            Node::Const(_) => "const".into(),
            Node::ConstPrim(_) => "from_i32".into(),
            Node::FloatConst(_) => "floatconst".into(),
            Node::Zero => "zero".into(),
            Node::One => "one".into(),
            Node::Un(f, _) => f.short().into(),
            Node::SinCos(_, _) => "sin_cos".into(),
            Node::Neg(_) => "neg".into(),
            Node::Inv(_) => "inv".into(),
            Node::Abs(_) => "abs".into(),
            Node::Bin(o, _, _, f) => format!("{:?}{:?}", o, f).to_lowercase(),
            Node::Scalar(o, _, _) => format!("{:?}_scalar", o).to_lowercase(),
            Node::Assign(o, _, _) => format!("{:?}_assign", o).to_lowercase(),
            Node::AssignScalar(o, _, _) => format!("{:?}_assign_scalar", o).to_lowercase(),
            Node::MulAdd(_, _, _) => "mul_add".into(),
            Node::Powd(_, _) => "powd".into(),
            Node::Atan2(_, _) => "atan2".into(),
            Node::Sum(_, r) => if *r { "sum_ref" } else { "sum" }.into(),
            Node::Product(_, r) => if *r { "product_ref" } else { "product" }.into(),
            Node::Select(_, _, _, _, _) => "select".into(),
        }
    }
}

/// everything a type must offer to run generated programs
pub trait ProgTy: Jetty + FloatConst + for<'a> std::iter::Sum<&'a Self> + for<'a> std::iter::Product<&'a Self> {}
impl<T> ProgTy for T where T: Jetty + FloatConst + for<'a> std::iter::Sum<&'a T> + for<'a> std::iter::Product<&'a T> {}

#[derive(Clone, Debug)]
pub struct Program {
    pub ninputs: usize,
    pub nodes: Vec<Node>,
}

pub const FLOAT_CONSTS: [(&str, f64); 8] = [
    ("PI", std::f64::consts::PI),
    ("E", std::f64::consts::E),
    ("LN_2", std::f64::consts::LN_2),
    ("SQRT_2", std::f64::consts::SQRT_2),
    ("FRAC_1_PI", std::f64::consts::FRAC_1_PI),
    ("FRAC_PI_3", std::f64::consts::FRAC_PI_3),
    ("LOG10_E", std::f64::consts::LOG10_E),
    ("FRAC_2_SQRT_PI", std::f64::consts::FRAC_2_SQRT_PI),
];

fn float_const<T: FloatConst>(i: u8) -> T {
    match i % 8 {
        0 => T::PI(),
        1 => T::E(),
        2 => T::LN_2(),
        3 => T::SQRT_2(),
        4 => T::FRAC_1_PI(),
        5 => T::FRAC_PI_3(),
        6 => T::LOG10_E(),
        _ => T::FRAC_2_SQRT_PI(),
    }
}

impl Program {
    pub fn to_json(&self) -> Value {
        json!({"ninputs": self.ninputs, "nodes": self.nodes.iter().enumerate().map(|(i, n)| format!("n{} = {:?}", i, n)).collect::<Vec<_>>()})
    }

    /// evaluate over a real type; returns every node value
    pub fn eval<T: ProgTy>(&self, inputs: &[T]) -> Vec<T> {
        let mut v: Vec<T> = Vec::with_capacity(self.nodes.len());
        let c = |x: f64| -> T::F { <T::F as num_traits::NumCast>::from(x).unwrap() };
        for n in &self.nodes {
            let r: T = match n {
                Node::Input(i) => inputs[*i].clone(),
                Node::Const(x) => T::from(c(*x)),
                Node::ConstPrim(k) => T::from_i32(*k).unwrap(),
                Node::FloatConst(i) => float_const::<T>(*i),
                Node::Zero => T::zero(),
                Node::One => T::one(),
                Node::Un(f, a) => crate::funcs::apply::<T, T::F>(*f, &v[*a]),
                Node::SinCos(a, second) => {
                    let (s, co) = v[*a].sin_cos();
                    if *second {
                        co
                    } else {
                        s
                    }
                }
                Node::Neg(a) => -v[*a].clone(),
                Node::Inv(a) => v[*a].clone().inv(),
                Node::Abs(a) => v[*a].abs(),
                Node::Bin(op, a, b, form) => {
                    let (x, y) = (&v[*a], &v[*b]);
                    match (op, form) {
                        (BinOp::Add, Form::VV) => x.clone() + y.clone(),
                        (BinOp::Add, Form::VR) => x.clone() + y,
                        (BinOp::Add, Form::RV) => x.rv_add(y.clone()),
                        (BinOp::Add, Form::RR) => x.rr_add(y),
                        (BinOp::Sub, Form::VV) => x.clone() - y.clone(),
                        (BinOp::Sub, Form::VR) => x.clone() - y,
                        (BinOp::Sub, Form::RV) => x.rv_sub(y.clone()),
                        (BinOp::Sub, Form::RR) => x.rr_sub(y),
                        (BinOp::Mul, Form::VV) => x.clone() * y.clone(),
                        (BinOp::Mul, Form::VR) => x.clone() * y,
                        (BinOp::Mul, Form::RV) => x.rv_mul(y.clone()),
                        (BinOp::Mul, Form::RR) => x.rr_mul(y),
                        (BinOp::Div, Form::VV) => x.clone() / y.clone(),
                        (BinOp::Div, Form::VR) => x.clone() / y,
                        (BinOp::Div, Form::RV) => x.rv_div(y.clone()),
                        (BinOp::Div, Form::RR) => x.rr_div(y),
                    }
                }
                Node::Scalar(op, a, s) => {
                    let x = v[*a].clone();
                    match op {
                        BinOp::Add => x + c(*s),
                        BinOp::Sub => x - c(*s),
                        BinOp::Mul => x * c(*s),
                        BinOp::Div => x / c(*s),
                    }
                }
                Node::Assign(op, a, b) => {
                    let mut x = v[*a].clone();
                    let y = v[*b].clone();
                    match op {
                        BinOp::Add => x += y,
                        BinOp::Sub => x -= y,
                        BinOp::Mul => x *= y,
                        BinOp::Div => x /= y,
                    }
                    x
                }
                Node::AssignScalar(op, a, s) => {
                    let mut x = v[*a].clone();
                    match op {
                        BinOp::Add => x += c(*s),
                        BinOp::Sub => x -= c(*s),
                        BinOp::Mul => x *= c(*s),
                        BinOp::Div => x /= c(*s),
                    }
                    x
                }
                Node::MulAdd(a, b, cc) => v[*a].mul_add(v[*b].clone(), v[*cc].clone()),
                Node::Powd(a, b) => v[*a].powd(v[*b].clone()),
                Node::Atan2(a, b) => v[*a].atan2(v[*b].clone()),
                Node::Sum(xs, by_ref) => {
                    if *by_ref {
                        xs.iter().map(|i| &v[*i]).sum()
                    } else {
                        xs.iter().map(|i| v[*i].clone()).sum()
                    }
                }
                Node::Product(xs, by_ref) => {
                    if *by_ref {
                        xs.iter().map(|i| &v[*i]).product()
                    } else {
                        xs.iter().map(|i| v[*i].clone()).product()
                    }
                }
                Node::Select(cmp, a, b, t, e) => {
                    let take = match cmp {
                        Cmp::Lt => v[*a].re() < v[*b].re(),
                        Cmp::Gt => v[*a].re() > v[*b].re(),
                    };
                    if take {
                        v[*t].clone()
                    } else {
                        v[*e].clone()
                    }
                }
            };
            v.push(r);
        }
        v
    }

    /// branch decisions taken by a real-type evaluation
    pub fn trace<T: Jetty>(&self, vals: &[T]) -> Vec<bool> {
        self.nodes
            .iter()
            .filter_map(|n| match n {
                Node::Select(cmp, a, b, _, _) => Some(match cmp {
                    Cmp::Lt => vals[*a].re() < vals[*b].re(),
                    Cmp::Gt => vals[*a].re() > vals[*b].re(),
                }),
                _ => None,
            })
            .collect()
    }

    /// tracked model evaluation; `f32`: constants as the f32 type sees them
    pub fn eval_model(&self, inputs: &[Tr], b: &Basis, f32: bool) -> Vec<Tr> {
        let rc = |x: f64| if f32 { x as f32 as f64 } else { x };
        let mut v: Vec<Tr> = Vec::with_capacity(self.nodes.len());
        for n in &self.nodes {
            let r = match n {
                Node::Input(i) => inputs[*i].clone(),
                Node::Const(x) => Tr::constant(b, rc(*x)),
                Node::ConstPrim(k) => Tr::constant(b, *k as f64),
                Node::FloatConst(i) => {
                    // an irrational constant rounded to the float type: one unit of error
                    // relative to the mathematical value (matters when f32 meets f64 in C04)
                    let mut t = Tr::constant(b, rc(FLOAT_CONSTS[(*i % 8) as usize].1));
                    t.e.c[0] = t.v.c[0].abs();
                    t
                }
                Node::Zero => Tr::constant(b, 0.0),
                Node::One => Tr::constant(b, 1.0),
                Node::Un(f, a) => v[*a].func(*f, b),
                Node::SinCos(a, second) => v[*a].func(if *second { Func::Cos } else { Func::Sin }, b),
                Node::Neg(a) => v[*a].neg(),
                Node::Inv(a) => v[*a].recip(b),
                Node::Abs(a) => {
                    if v[*a].re() > 0.0 {
                        v[*a].clone()
                    } else {
                        v[*a].neg()
                    }
                }
                Node::Bin(op, x, y, _) | Node::Assign(op, x, y) => match op {
                    BinOp::Add => v[*x].add(&v[*y]),
                    BinOp::Sub => v[*x].sub(&v[*y]),
                    BinOp::Mul => v[*x].mul(&v[*y], b),
                    BinOp::Div => v[*x].div(&v[*y], b),
                },
                Node::Scalar(op, a, s) | Node::AssignScalar(op, a, s) => {
                    let s = rc(*s);
                    match op {
                        BinOp::Add => v[*a].add_scalar(s),
                        BinOp::Sub => v[*a].add_scalar(-s),
                        BinOp::Mul => v[*a].scale(s),
                        BinOp::Div => v[*a].scale(1.0 / s),
                    }
                }
                Node::MulAdd(x, y, z) => v[*x].mul(&v[*y], b).add(&v[*z]),
                Node::Powd(x, y) => v[*x].func(Func::Ln, b).mul(&v[*y], b).func(Func::Exp, b),
                Node::Atan2(y, x) => tr_atan2(&v[*y], &v[*x], b),
                Node::Sum(xs, _) => {
                    let mut acc = Tr::constant(b, 0.0);
                    for i in xs {
                        acc = acc.add(&v[*i]);
                    }
                    acc
                }
                Node::Product(xs, _) => {
                    let mut acc = Tr::constant(b, 1.0);
                    for i in xs {
                        acc = acc.mul(&v[*i], b);
                    }
                    acc
                }
                Node::Select(cmp, x, y, t, e) => {
                    let take = match cmp {
                        Cmp::Lt => v[*x].re() < v[*y].re(),
                        Cmp::Gt => v[*x].re() > v[*y].re(),
                    };
                    if take {
                        v[*t].clone()
                    } else {
                        v[*e].clone()
                    }
                }
            };
            v.push(r);
        }
        v
    }
}

/// Model of a driver call: the program over the algebra Level(outer, elem), where input j carries
/// the element parts `xparts[j]` and a unit first-order part in every outer variable v with
/// seed[v] == j. Returns (values, error magnitudes) per storage slot (outer-major).
pub fn model_partials(
    prog: &Program,
    elem: &crate::basis::Shape,
    xparts: &[Vec<f64>],
    outer: crate::basis::Kind,
    seed: &[usize],
    f32: bool,
) -> (Vec<f64>, Vec<f64>) {
    let shape = crate::basis::Shape::level(outer.clone(), elem.clone());
    let b = Basis::new(&shape);
    let ne = elem.nslots();
    let oslots = outer.slots();
    let inputs: Vec<Tr> = xparts
        .iter()
        .enumerate()
        .map(|(j, xp)| {
            let mut s = vec![0.0; b.nslots()];
            s[..ne].copy_from_slice(xp);
            for (o, ex) in oslots.iter().enumerate() {
                let deg: usize = ex.iter().map(|e| *e as usize).sum();
                if deg == 1 {
                    let v = ex.iter().position(|e| *e == 1).unwrap();
                    if seed[v] == j {
                        s[o * ne] = 1.0;
                    }
                }
            }
            Tr::exact(Jet::from_slots(&b, &s), &b)
        })
        .collect();
    let out = prog.eval_model(&inputs, &b, f32);
    out.last().unwrap().slots(&b)
}

/// atan2(y,x) = Im log(x + i y) in complex jet arithmetic, with error tracking
pub fn tr_atan2(y: &Tr, x: &Tr, b: &Basis) -> Tr {
    let d = b.max_deg;
    let (x0, y0) = (x.v.c[0], y.v.c[0]);
    let r2 = x0 * x0 + y0 * y0;
    let nx = x.v.nil();
    let ny = y.v.nil();
    let wr = nx.scale(&(x0 / r2)).add(&ny.scale(&(y0 / r2)));
    let wi = ny.scale(&(x0 / r2)).sub(&nx.scale(&(y0 / r2)));
    let r = r2.sqrt();
    // magnitudes include the operands' own error bounds, so that products of two rounding
    // residues (second-order effects) stay inside the bound
    let wm = x.amax().nil().add(&y.amax().nil()).scale(&(1.0 / r));
    let mut pr = Jet::constant(b, 1.0);
    let mut pi = Jet::zero(b);
    let mut pm = Jet::constant(b, 1.0);
    let mut im = Jet::zero(b);
    let mut mag = Jet::zero(b);
    // geometric majorant of d log / dz: (1/r) sum_k wm^k
    let mut dmaj = Jet::constant(b, 1.0 / r);
    for k in 1..=d {
        let nr = pr.mul(&wr, b).sub(&pi.mul(&wi, b));
        let ni = pr.mul(&wi, b).add(&pi.mul(&wr, b));
        pr = nr;
        pi = ni;
        pm = pm.mul(&wm, b);
        let s = if k % 2 == 1 { 1.0 } else { -1.0 } / k as f64;
        im = im.add(&pi.scale(&s));
        mag = mag.add(&pm.scale(&(2.0 / k as f64)));
        dmaj = dmaj.add(&pm.scale(&(1.0 / r)));
    }
    im.c[0] = y0.atan2(x0);
    mag.c[0] = im.c[0].abs();
    let e = dmaj.mul(&x.e.add(&y.e), b).add(&mag.scale(&2.0));
    Tr { v: im, e }
}

// ------------------------------------------------------------------ generation

pub struct GenCfg {
    pub max_nodes: usize,
    pub ninputs: usize,
    pub f32: bool,
    pub selects: bool,
    /// keep tanh/sph arguments etc. in their well-conditioned ranges
    pub allow_sph: bool,
}

fn ok_un(f: Func, v: f64, f32: bool) -> bool {
    let a = v.abs();
    let big = if f32 { 8.0 } else { 20.0 };
    match f {
        Func::Recip => a >= 0.05,
        Func::Sqrt | Func::Ln | Func::Log(_) | Func::Log2 | Func::Log10 => v >= 0.05,
        Func::Cbrt => a >= 0.05,
        Func::Ln1p => v >= -0.9,
        Func::Exp | Func::Exp2 | Func::ExpM1 => a <= big,
        Func::Sin | Func::Cos => a <= 50.0,
        Func::Tan => a <= 50.0 && v.cos().abs() >= 0.05,
        Func::Asin | Func::Acos | Func::Atanh => a <= 0.9,
        Func::Acosh => v >= 1.1,
        Func::Sinh | Func::Cosh => a <= if f32 { 6.0 } else { 10.0 },
        Func::Tanh => a <= 15.0,
        Func::Atan | Func::Asinh => a <= 1e3,
        Func::Powi(n) => {
            if n < 0 && a < 0.05 {
                return false;
            }
            let l = (n as f64) * a.max(1e-300).ln();
            l.abs() <= 12.0 && (n >= 0 || a >= 0.05) && (n <= 2 || a >= 1e-3)
        }
        Func::Powf(p) => v >= 0.05 && (p * v.ln()).abs() <= 12.0,
        Func::SphJ0 | Func::SphJ1 | Func::SphJ2 => a <= 30.0,
        _ => false,
    }
}

fn f32r(x: f64) -> f64 {
    x as f32 as f64
}

const UNARY: [Func; 23] = [
    Func::Recip,
    Func::Sqrt,
    Func::Cbrt,
    Func::Exp,
    Func::Exp2,
    Func::ExpM1,
    Func::Ln,
    Func::Log2,
    Func::Log10,
    Func::Ln1p,
    Func::Sin,
    Func::Cos,
    Func::Tan,
    Func::Asin,
    Func::Acos,
    Func::Atan,
    Func::Sinh,
    Func::Cosh,
    Func::Tanh,
    Func::Asinh,
    Func::Acosh,
    Func::Atanh,
    Func::SphJ0,
];

/// Generate a program together with the f64 values of its nodes at `x` (the real parts of the
/// inputs). Every accepted node keeps its operands inside the operation's domain with a margin.
pub fn generate(rng: &mut Rng, cfg: &GenCfg, x: &[f64]) -> (Program, Vec<f64>) {
    let lim = if cfg.f32 { 1e4 } else { 1e6 };
    let mut nodes: Vec<Node> = Vec::new();
    let mut vals: Vec<f64> = Vec::new();
    for i in 0..cfg.ninputs {
        nodes.push(Node::Input(i));
        vals.push(x[i]);
    }
    let target = cfg.ninputs + 2 + rng.below(cfg.max_nodes.saturating_sub(cfg.ninputs + 2) + 1);
    let mut attempts = 0;
    while nodes.len() < target && attempts < 4000 {
        attempts += 1;
        let n = nodes.len();
        // pick operands biased to recent nodes
        let pick = |rng: &mut Rng| -> usize {
            if rng.chance(0.6) {
                n - 1 - rng.below(n.min(4))
            } else {
                rng.below(n)
            }
        };
        let a = pick(rng);
        let mut b = pick(rng);
        // hostile operand: a value whose real part is exactly zero but whose parts are not
        let zeros: Vec<usize> = (0..n).filter(|i| vals[*i] == 0.0 && !matches!(nodes[*i], Node::Zero)).collect();
        if !zeros.is_empty() && rng.chance(0.25) {
            b = *rng.choose(&zeros);
        }
        let (va, vb) = (vals[a], vals[b]);
        let kind = rng.below(100);
        let cand: Option<(Node, f64)> = match kind {
            0..=29 => {
                let mut f = *rng.choose(&UNARY);
                if rng.chance(0.12) {
                    f = *rng.choose(&[Func::SphJ0, Func::SphJ1, Func::SphJ2]);
                }
                if !cfg.allow_sph && matches!(f, Func::SphJ0 | Func::SphJ1 | Func::SphJ2) {
                    f = Func::Sin;
                }
                if rng.chance(0.05) {
                    f = Func::Log(*rng.choose(&[0.5, 4.25, 10.0]));
                }
                if ok_un(f, va, cfg.f32) {
                    Some((Node::Un(f, a), crate::funcs::apply_f64(f, va)))
                } else {
                    None
                }
            }
            30..=34 => {
                let n = *rng.choose(&[-3, -2, -1, 0, 1, 2, 3, 4, 5, 7]);
                let f = Func::Powi(n);
                if ok_un(f, va, cfg.f32) {
                    Some((Node::Un(f, a), va.powi(n)))
                } else {
                    None
                }
            }
            35..=38 => {
                let p = f32r(*rng.choose(&[0.0, 1.0, 2.0, 3.0, -1.0, 0.5, -0.5, 1.5, 2.5, 4.25, -2.75]));
                let f = Func::Powf(p);
                if ok_un(f, va, cfg.f32) {
                    Some((Node::Un(f, a), va.powf(p)))
                } else {
                    None
                }
            }
            39..=40 => {
                if va.abs() <= 50.0 {
                    let second = rng.bool();
                    Some((Node::SinCos(a, second), if second { va.cos() } else { va.sin() }))
                } else {
                    None
                }
            }
            41..=43 => Some((Node::Neg(a), -va)),
            44..=45 => {
                if va.abs() >= 0.05 {
                    Some((Node::Inv(a), 1.0 / va))
                } else {
                    None
                }
            }
            46..=47 => {
                if va.abs() >= 1e-3 {
                    Some((Node::Abs(a), va.abs()))
                } else {
                    None
                }
            }
            48..=67 => {
                let op = *rng.choose(&[BinOp::Add, BinOp::Sub, BinOp::Mul, BinOp::Mul, BinOp::Div]);
                let form = *rng.choose(&[Form::VV, Form::VR, Form::RV, Form::RR]);
                let r = match op {
                    BinOp::Add => Some(va + vb),
                    BinOp::Sub => Some(va - vb),
                    BinOp::Mul => Some(va * vb),
                    BinOp::Div => {
                        if vb.abs() >= 0.05 {
                            Some(va / vb)
                        } else {
                            None
                        }
                    }
                };
                r.map(|r| (Node::Bin(op, a, b, form), r))
            }
            68..=75 => {
                let op = *rng.choose(&[BinOp::Add, BinOp::Sub, BinOp::Mul, BinOp::Div]);
                let s = f32r(rng.sign() * rng.logu(0.1, 8.0));
                let r = match op {
                    BinOp::Add => va + s,
                    BinOp::Sub => va - s,
                    BinOp::Mul => va * s,
                    BinOp::Div => va / s,
                };
                if rng.bool() {
                    Some((Node::Scalar(op, a, s), r))
                } else {
                    Some((Node::AssignScalar(op, a, s), r))
                }
            }
            76..=81 => {
                let op = *rng.choose(&[BinOp::Add, BinOp::Sub, BinOp::Mul, BinOp::Div]);
                let r = match op {
                    BinOp::Add => Some(va + vb),
                    BinOp::Sub => Some(va - vb),
                    BinOp::Mul => Some(va * vb),
                    BinOp::Div => {
                        if vb.abs() >= 0.05 {
                            Some(va / vb)
                        } else {
                            None
                        }
                    }
                };
                r.map(|r| (Node::Assign(op, a, b), r))
            }
            82..=84 => {
                let mut c = pick(rng);
                if !zeros.is_empty() && rng.chance(0.4) {
                    c = *rng.choose(&zeros);
                    b = pick(rng);
                }
                Some((Node::MulAdd(a, b, c), va * vals[b] + vals[c]))
            }
            85..=86 => {
                if va >= 0.05 && (vb * va.ln()).abs() <= 12.0 && vb.abs() <= 8.0 {
                    Some((Node::Powd(a, b), va.powf(vb)))
                } else {
                    None
                }
            }
            87..=88 => {
                if va * va + vb * vb >= 0.01 && va.abs() >= 1e-3 && vb.abs() >= 1e-3 {
                    Some((Node::Atan2(a, b), va.atan2(vb)))
                } else {
                    None
                }
            }
            89..=91 => {
                let k = rng.below(5);
                let xs: Vec<usize> = (0..k).map(|_| pick(rng)).collect();
                let s: f64 = xs.iter().map(|i| vals[*i]).sum();
                Some((Node::Sum(xs, rng.bool()), s))
            }
            92..=93 => {
                let k = rng.below(4);
                let xs: Vec<usize> = (0..k).map(|_| pick(rng)).collect();
                let s: f64 = xs.iter().map(|i| vals[*i]).product();
                Some((Node::Product(xs, rng.bool()), s))
            }
            94 => {
                // x - re(x): exactly zero real part, all derivative parts kept
                if !cfg.f32 || f32r(va) == va {
                    Some((Node::Scalar(BinOp::Sub, a, va), 0.0))
                } else {
                    None
                }
            }
            95..=96 => {
                let s = match rng.below(5) {
                    0 => (Node::Zero, 0.0),
                    1 => (Node::One, 1.0),
                    2 => {
                        let k = rng.int(-9, 9) as i32;
                        (Node::ConstPrim(k), k as f64)
                    }
                    3 => {
                        let i = rng.below(8) as u8;
                        (Node::FloatConst(i), FLOAT_CONSTS[i as usize].1)
                    }
                    _ => {
                        let c = f32r(rng.sign() * rng.logu(0.1, 8.0));
                        (Node::Const(c), c)
                    }
                };
                Some(s)
            }
            _ => {
                if cfg.selects && (va - vb).abs() >= 1e-3 * (1.0 + va.abs().max(vb.abs())) {
                    let t = pick(rng);
                    let e = pick(rng);
                    let cmp = if rng.bool() { Cmp::Lt } else { Cmp::Gt };
                    let take = match cmp {
                        Cmp::Lt => va < vb,
                        Cmp::Gt => va > vb,
                    };
                    Some((Node::Select(cmp, a, b, t, e), if take { vals[t] } else { vals[e] }))
                } else {
                    None
                }
            }
        };
        if let Some((node, val)) = cand {
            if val.is_finite() && val.abs() <= lim {
                nodes.push(node);
                vals.push(val);
            }
        }
    }
    (Program { ninputs: cfg.ninputs, nodes }, vals)
}
