//! Input generation shared by the checks.

use crate::basis::Basis;
use crate::rng::Rng;

pub const STYLES: [&str; 6] = ["generic", "some-zero", "all-zero", "higher-only", "first-only", "big-small"];

/// Slot values (derivative convention) of an operand with real part `re`.
/// Values are generated per monomial so symmetric storage duplicates agree. With `f32` set, every
/// value is rounded to f32 first, so that the model sees exactly what the type stores.
pub fn gen_slots(rng: &mut Rng, b: &Basis, re: f64, style: usize, f32: bool) -> Vec<f64> {
    let n = b.n();
    let mut dv = vec![0.0f64; n];
    dv[0] = re;
    for m in 1..n {
        let d = b.deg[m];
        dv[m] = match style {
            0 => rng.part(),
            1 => {
                if rng.chance(0.4) {
                    0.0
                } else {
                    rng.part()
                }
            }
            2 => 0.0,
            3 => {
                if d >= 2 {
                    rng.part()
                } else {
                    0.0
                }
            }
            4 => {
                if d == 1 {
                    rng.part()
                } else {
                    0.0
                }
            }
            _ => {
                // mixed magnitudes
                let m = rng.logu(1e-3, 1e2);
                m * rng.sign()
            }
        };
    }
    if f32 {
        for v in dv.iter_mut() {
            *v = *v as f32 as f64;
        }
    }
    b.slot_mono.iter().map(|&m| dv[m]).collect()
}

/// round a real-part candidate to what the float type stores
pub fn round_to(x: f64, f32: bool) -> f64 {
    if f32 {
        x as f32 as f64
    } else {
        x
    }
}

/// presence pattern string for class keys
pub fn presence_key(p: &[bool]) -> String {
    if p.is_empty() {
        return "-".into();
    }
    p.iter().map(|&b| if b { 'P' } else { 'a' }).collect()
}
