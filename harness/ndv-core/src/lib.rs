pub mod basis;
pub mod evidence;
pub mod evlog;
pub mod funcs;
pub mod gen;
pub mod jetty;
pub mod model;
pub mod program;
pub mod rng;
pub mod taylor;
pub mod track;
pub mod zoo;

pub use basis::{Basis, Kind, Shape};
pub use jetty::*;
pub use model::{Dyadic, Jet, Rat, Sc};
pub use rng::Rng;
pub use taylor::Func;

/// bit-level helpers
pub fn hex(x: f64) -> String {
    format!("{:016x}", x.to_bits())
}
pub fn ulp_diff_f64(a: f64, b: f64) -> u64 {
    if a == b {
        return 0;
    }
    if a.is_nan() || b.is_nan() {
        return u64::MAX;
    }
    let f = |x: f64| {
        let b = x.to_bits() as i64;
        if b < 0 {
            i64::MIN.wrapping_sub(b)
        } else {
            b
        }
    };
    (f(a) as i128 - f(b) as i128).unsigned_abs() as u64
}
pub fn ulp_diff_f32(a: f32, b: f32) -> u64 {
    if a == b {
        return 0;
    }
    if a.is_nan() || b.is_nan() {
        return u64::MAX;
    }
    let f = |x: f32| {
        let b = x.to_bits() as i32;
        if b < 0 {
            i32::MIN.wrapping_sub(b)
        } else {
            b
        }
    };
    (f(a) as i64 - f(b) as i64).unsigned_abs()
}
/// numeric equality of bit patterns as reals (-0.0 == +0.0, NaN != NaN)
pub fn same_real(a: f64, b: f64) -> bool {
    a == b
}
