//! Accumulation of observations, three-valued verdicts, known findings, evidence and replay files.

use serde_json::{json, Map, Value};
use std::collections::{BTreeMap, BTreeSet};
use std::time::Instant;

pub const VERIF_ROOT: &str = "/verif";

#[derive(Clone, Debug)]
pub struct Violation {
    /// signature naming the failing input class (matched against KNOWN_FINDINGS.txt)
    pub sig: String,
    pub what: String,
    pub replay: Value,
}

/// Per-thread accumulator; merged at the end.
#[derive(Clone, Debug, Default)]
pub struct Acc {
    pub evaluations: u64,
    /// class key -> number of observations
    pub classes: BTreeMap<String, u64>,
    /// class keys that were observed with a non-trivial case
    pub nontrivial: BTreeSet<String>,
    pub samples: Vec<Value>,
    pub violations: Vec<Violation>,
    pub max_ratio: f64,
    pub max_ratio_at: String,
    pub counters: BTreeMap<String, u64>,
    pub maxima: BTreeMap<String, f64>,
}

impl Acc {
    pub fn new() -> Self {
        Default::default()
    }
    pub fn observe(&mut self, class: &str, nontrivial: bool) {
        self.evaluations += 1;
        *self.classes.entry(class.to_string()).or_insert(0) += 1;
        if nontrivial {
            self.nontrivial.insert(class.to_string());
        }
    }
    pub fn count(&mut self, key: &str, n: u64) {
        *self.counters.entry(key.to_string()).or_insert(0) += n;
    }
    pub fn maxi(&mut self, key: &str, v: f64) {
        let e = self.maxima.entry(key.to_string()).or_insert(0.0);
        if v > *e {
            *e = v;
        }
    }
    pub fn ratio(&mut self, r: f64, at: impl FnOnce() -> String) {
        if r > self.max_ratio {
            self.max_ratio = r;
            self.max_ratio_at = at();
        }
    }
    pub fn sample(&mut self, v: impl FnOnce() -> Value) {
        if self.samples.len() < 6 {
            self.samples.push(v());
        }
    }
    pub fn violate(&mut self, sig: String, what: String, replay: Value) {
        // keep at most a few per signature to bound memory
        let n = self.violations.iter().filter(|v| v.sig == sig).count();
        if n < 3 {
            self.violations.push(Violation { sig, what, replay });
        } else {
            self.count(&format!("more_violations[{}]", sig), 1);
        }
    }
    pub fn merge(&mut self, o: Acc) {
        self.evaluations += o.evaluations;
        for (k, v) in o.classes {
            *self.classes.entry(k).or_insert(0) += v;
        }
        self.nontrivial.extend(o.nontrivial);
        for s in o.samples {
            if self.samples.len() < 8 {
                self.samples.push(s);
            }
        }
        for v in o.violations {
            let n = self.violations.iter().filter(|w| w.sig == v.sig).count();
            if n < 3 {
                self.violations.push(v);
            }
        }
        if o.max_ratio > self.max_ratio {
            self.max_ratio = o.max_ratio;
            self.max_ratio_at = o.max_ratio_at;
        }
        for (k, v) in o.counters {
            *self.counters.entry(k).or_insert(0) += v;
        }
        for (k, v) in o.maxima {
            let e = self.maxima.entry(k).or_insert(0.0);
            if v > *e {
                *e = v;
            }
        }
    }
}

pub struct Ctx {
    pub id: String,
    pub tier: String,
    pub seed: u64,
    pub start: Instant,
    pub threads: usize,
}

impl Ctx {
    /// parse `<bin> <quick|thorough> [--seed N]`; VERIF_SEED / VERIF_TIER env override
    pub fn from_args(id: &str) -> Ctx {
        let args: Vec<String> = std::env::args().collect();
        let mut tier = args.get(1).cloned().unwrap_or_else(|| "quick".into());
        if let Ok(t) = std::env::var("VERIF_TIER") {
            if t == "quick" || t == "thorough" {
                tier = t;
            }
        }
        if tier != "quick" && tier != "thorough" && tier != "replay" {
            tier = "quick".into();
        }
        let seed = std::env::var("VERIF_SEED").ok().and_then(|s| s.parse::<u64>().ok()).unwrap_or(20261002);
        let threads = std::env::var("VERIF_THREADS")
            .ok()
            .and_then(|s| s.parse().ok())
            .unwrap_or_else(|| std::thread::available_parallelism().map(|n| n.get()).unwrap_or(4));
        Ctx { id: id.into(), tier, seed, start: Instant::now(), threads }
    }
    pub fn thorough(&self) -> bool {
        self.tier == "thorough"
    }
    pub fn replay_arg(&self) -> Option<String> {
        let args: Vec<String> = std::env::args().collect();
        args.iter().position(|a| a == "--replay").and_then(|i| args.get(i + 1).cloned())
    }
    /// pick n by tier
    pub fn n(&self, quick: u64, thorough: u64) -> u64 {
        if self.thorough() {
            thorough
        } else {
            quick
        }
    }

    /// run `work(shard, nshards)` on all threads and merge
    pub fn parallel<F: Fn(usize, usize) -> Acc + Sync>(&self, work: F) -> Acc {
        let n = self.threads.max(1);
        let mut total = Acc::new();
        std::thread::scope(|s| {
            let hs: Vec<_> = (0..n)
                .map(|i| {
                    let w = &work;
                    std::thread::Builder::new()
                        .stack_size(64 << 20)
                        .spawn_scoped(s, move || w(i, n))
                        .unwrap()
                })
                .collect();
            for h in hs {
                match h.join() {
                    Ok(a) => total.merge(a),
                    Err(_) => {
                        eprintln!("INCONCLUSIVE: a worker thread panicked outside a monitored case");
                        std::process::exit(2);
                    }
                }
            }
        });
        total
    }

    /// known findings for this property: signature -> description
    fn known(&self) -> (BTreeMap<String, String>, Vec<String>) {
        let mut m = BTreeMap::new();
        let mut fixed = Vec::new();
        let p = format!("{}/KNOWN_FINDINGS.txt", VERIF_ROOT);
        if let Ok(txt) = std::fs::read_to_string(&p) {
            for line in txt.lines() {
                let line = line.trim();
                if let Some(rest) = line.strip_prefix("finding:") {
                    let rest = rest.trim();
                    let mut it = rest.splitn(3, ' ');
                    let prop = it.next().unwrap_or("");
                    let sig = it.next().unwrap_or("");
                    let desc = it.next().unwrap_or("");
                    if prop == format!("property={}", self.id) {
                        if let Some(s) = sig.strip_prefix("sig=") {
                            m.insert(s.to_string(), desc.to_string());
                        }
                    }
                } else if line.starts_with("fixed:") && line.contains(&format!("property={}", self.id)) {
                    fixed.push(line.to_string());
                }
            }
        }
        (m, fixed)
    }

    /// Write evidence, print verdict lines, exit.
    /// `required`: (description, satisfied) pairs; an unsatisfied requirement makes the run
    /// inconclusive (exit 2) unless a violation was found.
    pub fn finish(
        &self,
        acc: Acc,
        rule: &str,
        assumptions: &[&str],
        extra: Map<String, Value>,
        required: &[(String, bool)],
    ) -> ! {
        crate::evlog::flush();
        let (known, _fixed) = self.known();
        let mut real: Vec<&Violation> = Vec::new();
        let mut known_hit: BTreeMap<String, (u64, String)> = BTreeMap::new();
        for v in &acc.violations {
            if known.contains_key(&v.sig) {
                let e = known_hit.entry(v.sig.clone()).or_insert((0, v.what.clone()));
                e.0 += 1;
            } else {
                real.push(v);
            }
        }
        let wall = self.start.elapsed().as_secs_f64();
        let mut coverage = Map::new();
        coverage.insert("evaluations".into(), json!(acc.evaluations));
        coverage.insert("distinct_nontrivial".into(), json!(acc.nontrivial.len()));
        coverage.insert("rule".into(), json!(rule));
        let mut samples = acc.samples.clone();
        if samples.is_empty() {
            samples.push(json!("no sample recorded"));
        }
        coverage.insert("samples".into(), Value::Array(samples));
        coverage.insert("distinct_classes_observed".into(), json!(acc.classes.len()));
        // histogram: keep it bounded
        let mut hist = Map::new();
        for (k, v) in acc.classes.iter().take(400) {
            hist.insert(k.clone(), json!(v));
        }
        coverage.insert("classes".into(), Value::Object(hist));
        coverage.insert("max_ratio".into(), json!(acc.max_ratio));
        coverage.insert("max_ratio_at".into(), json!(acc.max_ratio_at));
        let mut cnt = Map::new();
        for (k, v) in &acc.counters {
            cnt.insert(k.clone(), json!(v));
        }
        coverage.insert("counters".into(), Value::Object(cnt));
        let mut mx = Map::new();
        for (k, v) in &acc.maxima {
            mx.insert(k.clone(), json!(v));
        }
        coverage.insert("maxima".into(), Value::Object(mx));
        let mut kf = Map::new();
        for (k, (n, what)) in &known_hit {
            kf.insert(k.clone(), json!({"cases": n, "example": what}));
        }
        coverage.insert("known_findings_hit".into(), Value::Object(kf));
        let unmet: Vec<&String> = required.iter().filter(|(_, ok)| !ok).map(|(d, _)| d).collect();
        coverage.insert(
            "required_observations".into(),
            json!(required.iter().map(|(d, ok)| json!({"what": d, "met": ok})).collect::<Vec<_>>()),
        );
        for (k, v) in extra {
            coverage.insert(k, v);
        }
        // results of a companion pass (e.g. the wrapping-overflow build of C09) are embedded
        if let Ok(p) = std::env::var("VERIF_MERGE") {
            if let Ok(txt) = std::fs::read_to_string(&p) {
                if let Ok(v) = serde_json::from_str::<Value>(&txt) {
                    coverage.insert("companion_pass".into(), json!({"file": p, "evaluations": v["coverage"]["evaluations"], "violations": v["violations"], "verdict": v["coverage"]["verdict"], "max_ratio": v["coverage"]["max_ratio"], "counters": v["coverage"]["counters"]}));
                }
            }
        }
        let verdict = if !real.is_empty() {
            "violated"
        } else if !unmet.is_empty() {
            "inconclusive"
        } else {
            "held"
        };
        coverage.insert("verdict".into(), json!(verdict));
        let ev = json!({
            "property_id": self.id,
            "tier": if self.tier == "thorough" { "thorough" } else { "quick" },
            "seed": self.seed,
            "level": "exploration",
            "coverage": Value::Object(coverage),
            "assumptions": assumptions,
            "wall_s": wall,
            "violations": real.len(),
        });
        let evdir = format!("{}/evidence", VERIF_ROOT);
        let _ = std::fs::create_dir_all(&evdir);
        let evpath = std::env::var("VERIF_EVIDENCE_PATH").unwrap_or_else(|_| format!("{}/{}.json", evdir, self.id));
        if self.tier != "replay" {
            std::fs::write(&evpath, serde_json::to_string_pretty(&ev).unwrap()).expect("write evidence");
        }
        for (sig, (n, what)) in &known_hit {
            println!("KNOWN-FINDING: property={} sig={} cases={} e.g. {}", self.id, sig, n, what);
        }
        println!(
            "{}: tier={} seed={} evaluations={} distinct_nontrivial={} classes={} max_ratio={:.3} ({}) wall={:.1}s verdict={}",
            self.id,
            self.tier,
            self.seed,
            acc.evaluations,
            acc.nontrivial.len(),
            acc.classes.len(),
            acc.max_ratio,
            acc.max_ratio_at,
            wall,
            verdict
        );
        if !real.is_empty() {
            let rdir = format!("{}/replay/{}", VERIF_ROOT, self.id);
            let _ = std::fs::create_dir_all(&rdir);
            let mut seen = BTreeSet::new();
            for (i, v) in real.iter().enumerate() {
                let path = format!("{}/{}-{}-{}.json", rdir, self.tier, self.seed, i);
                let body = json!({"property": self.id, "sig": v.sig, "what": v.what, "case": v.replay, "seed": self.seed, "tier": self.tier});
                let _ = std::fs::write(&path, serde_json::to_string_pretty(&body).unwrap());
                if seen.insert(v.sig.clone()) {
                    println!("  violation sig={} : {}", v.sig, v.what);
                }
                println!("VIOLATION property={} replay={}", self.id, path);
            }
            std::process::exit(1);
        }
        if !unmet.is_empty() {
            for u in unmet {
                println!("INCONCLUSIVE: required observation not made: {}", u);
            }
            std::process::exit(2);
        }
        std::process::exit(0);
    }
}

pub fn hexes(v: &[f64]) -> Value {
    Value::Array(v.iter().map(|x| json!(format!("{:016x}", x.to_bits()))).collect())
}
pub fn floats(v: &[f64]) -> Value {
    Value::Array(
        v.iter()
            .map(|x| if x.is_finite() { json!(x) } else { json!(format!("{}", x)) })
            .collect(),
    )
}

/// Run a piece of code under test; a panic (e.g. an arithmetic-overflow check firing inside the
/// crate) is returned as Err with its message instead of tearing the monitor down.
pub fn guarded<R>(f: impl FnOnce() -> R) -> Result<R, String> {
    use std::sync::Once;
    static QUIET: Once = Once::new();
    QUIET.call_once(|| {
        let default = std::panic::take_hook();
        std::panic::set_hook(Box::new(move |info| {
            if std::env::var("VERIF_LOUD_PANICS").is_ok() {
                default(info);
            }
        }));
    });
    match std::panic::catch_unwind(std::panic::AssertUnwindSafe(f)) {
        Ok(r) => Ok(r),
        Err(e) => {
            let msg = if let Some(s) = e.downcast_ref::<&str>() {
                s.to_string()
            } else if let Some(s) = e.downcast_ref::<String>() {
                s.clone()
            } else {
                "panic".to_string()
            };
            Err(msg)
        }
    }
}
