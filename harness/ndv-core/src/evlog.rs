//! Append-only event log of observed calls (JSON lines, floats as hex bit patterns), read by the
//! offline mpmath checker py/check_log.py. Enabled by VERIF_LOG=<file>; every VERIF_LOG_EVERY-th
//! call per thread is recorded.

use crate::basis::Basis;
use crate::taylor::Func;
use std::cell::Cell;
use std::io::Write;
use std::sync::Mutex;

static SINK: Mutex<Option<std::io::BufWriter<std::fs::File>>> = Mutex::new(None);
thread_local! {
    static COUNT: Cell<u64> = const { Cell::new(0) };
}

fn every() -> u64 {
    std::env::var("VERIF_LOG_EVERY").ok().and_then(|s| s.parse().ok()).unwrap_or(1)
}

pub fn enabled() -> bool {
    std::env::var("VERIF_LOG").is_ok()
}

pub fn func_key(f: Func) -> String {
    match f {
        Func::Log(b) => format!("log:{:016x}", b.to_bits()),
        Func::Powi(n) => format!("powi:{}", n),
        Func::Powf(p) => format!("powf:{:016x}", p.to_bits()),
        f => f.short().to_string(),
    }
}

/// one unary call y = f(x) on a type with the given basis
pub fn log_unary(prop: &str, tname: &str, f: Func, b: &Basis, x: &[f64], y: &[f64], f32: bool) {
    if !enabled() {
        return;
    }
    let n = COUNT.with(|c| {
        c.set(c.get() + 1);
        c.get()
    });
    if n % every() != 0 {
        return;
    }
    let hx = |v: &[f64]| v.iter().map(|x| format!("\"{:016x}\"", x.to_bits())).collect::<Vec<_>>().join(",");
    let mon = b.slot_mono.iter().map(|&m| format!("[{}]", b.monos[m].iter().map(|e| e.to_string()).collect::<Vec<_>>().join(","))).collect::<Vec<_>>().join(",");
    let line = format!(
        "{{\"p\":\"{}\",\"t\":\"{}\",\"f\":\"{}\",\"f32\":{},\"mon\":[{}],\"x\":[{}],\"y\":[{}]}}\n",
        prop, tname, func_key(f), f32, mon, hx(x), hx(y)
    );
    let mut g = SINK.lock().unwrap();
    if g.is_none() {
        if let Ok(p) = std::env::var("VERIF_LOG") {
            if let Ok(file) = std::fs::OpenOptions::new().create(true).append(true).open(p) {
                *g = Some(std::io::BufWriter::new(file));
            }
        }
    }
    if let Some(w) = g.as_mut() {
        let _ = w.write_all(line.as_bytes());
    }
}

pub fn flush() {
    if let Some(w) = SINK.lock().unwrap().as_mut() {
        let _ = w.flush();
    }
}
