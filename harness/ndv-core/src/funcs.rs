//! The unary functions of the interface: application to the real types, and stratified argument
//! regions ("domain with a margin from singularities", plus the branches named in the anchors).

use crate::rng::Rng;
use crate::taylor::Func;
use num_dual::{DualNum, DualNumFloat};

pub fn apply<D: DualNum<F>, F: DualNumFloat>(f: Func, x: &D) -> D {
    let c = |v: f64| F::from(v).unwrap();
    match f {
        Func::Recip => x.recip(),
        Func::Sqrt => x.sqrt(),
        Func::Cbrt => x.cbrt(),
        Func::Exp => x.exp(),
        Func::Exp2 => x.exp2(),
        Func::ExpM1 => x.exp_m1(),
        Func::Ln => x.ln(),
        Func::Log(b) => x.log(c(b)),
        Func::Log2 => x.log2(),
        Func::Log10 => x.log10(),
        Func::Ln1p => x.ln_1p(),
        Func::Sin => x.sin(),
        Func::Cos => x.cos(),
        Func::Tan => x.tan(),
        Func::Asin => x.asin(),
        Func::Acos => x.acos(),
        Func::Atan => x.atan(),
        Func::Sinh => x.sinh(),
        Func::Cosh => x.cosh(),
        Func::Tanh => x.tanh(),
        Func::Asinh => x.asinh(),
        Func::Acosh => x.acosh(),
        Func::Atanh => x.atanh(),
        Func::Powi(n) => x.powi(n),
        Func::Powf(p) => x.powf(c(p)),
        Func::SphJ0 => x.sph_j0(),
        Func::SphJ1 => x.sph_j1(),
        Func::SphJ2 => x.sph_j2(),
        Func::BesselJ0 | Func::BesselJ1 | Func::BesselJ2 => {
            panic!("Bessel functions need BesselDual (Copy); use apply_bessel")
        }
    }
}

pub fn apply_bessel<D: num_dual::BesselDual>(f: Func, x: D) -> D {
    match f {
        Func::BesselJ0 => x.bessel_j0(),
        Func::BesselJ1 => x.bessel_j1(),
        Func::BesselJ2 => x.bessel_j2(),
        _ => panic!("not a Bessel function"),
    }
}

/// the same function on a plain f64
pub fn apply_f64(f: Func, x: f64) -> f64 {
    apply::<f64, f64>(f, &x)
}

/// elementary functions of property C01 (powers: C09; Bessel: C14/C15)
pub fn c01_funcs() -> Vec<Func> {
    vec![
        Func::Recip,
        Func::Sqrt,
        Func::Cbrt,
        Func::Exp,
        Func::Exp2,
        Func::ExpM1,
        Func::Ln,
        Func::Log(0.5),
        Func::Log(4.2),
        Func::Log(10.0),
        Func::Log2,
        Func::Log10,
        Func::Ln1p,
        Func::Sin,
        Func::Cos,
        Func::Tan,
        Func::Asin,
        Func::Acos,
        Func::Atan,
        Func::Sinh,
        Func::Cosh,
        Func::Tanh,
        Func::Asinh,
        Func::Acosh,
        Func::Atanh,
    ]
}

pub type Region = (&'static str, fn(&mut Rng) -> f64);

fn pm(r: &mut Rng, lo: f64, hi: f64) -> f64 {
    r.range(lo, hi)
}

/// argument regions per function; `f32`: keep magnitudes inside f32 range / accuracy
pub fn regions(f: Func) -> Vec<Region> {
    use std::f64::consts::PI;
    match f {
        Func::Recip => vec![
            ("pos", |r| r.logu(0.1, 10.0)),
            ("neg", |r| -r.logu(0.1, 10.0)),
            ("large", |r| r.sign() * r.logu(1e2, 1e4)),
            ("small", |r| r.sign() * r.logu(1e-3, 1e-1)),
        ],
        Func::Sqrt => vec![
            ("(0.05,1)", |r| pm(r, 0.05, 1.0)),
            ("(1,100)", |r| r.logu(1.0, 100.0)),
            ("large", |r| r.logu(1e3, 1e6)),
        ],
        Func::Cbrt => vec![
            ("pos", |r| r.logu(0.05, 100.0)),
            ("neg", |r| -r.logu(0.05, 100.0)),
            ("neg-large", |r| -r.logu(1e2, 1e5)),
        ],
        Func::Exp | Func::Exp2 => vec![
            ("neg", |r| pm(r, -20.0, 0.0)),
            ("pos", |r| pm(r, 0.0, 20.0)),
            ("tiny", |r| r.sign() * r.logu(1e-9, 1e-3)),
        ],
        Func::ExpM1 => vec![
            ("neg", |r| pm(r, -20.0, -0.1)),
            ("pos", |r| pm(r, 0.1, 20.0)),
            ("tiny", |r| r.sign() * r.logu(1e-12, 1e-3)),
        ],
        Func::Ln | Func::Log(_) | Func::Log2 | Func::Log10 => vec![
            ("(0.05,1)", |r| pm(r, 0.05, 0.95)),
            ("(1,100)", |r| r.logu(1.05, 100.0)),
            ("near1", |r| 1.0 + r.sign() * r.logu(1e-4, 1e-2)),
            ("large", |r| r.logu(1e3, 1e6)),
        ],
        Func::Ln1p => vec![
            ("(-0.9,0)", |r| pm(r, -0.9, -0.05)),
            ("tiny", |r| r.sign() * r.logu(1e-12, 1e-3)),
            ("pos", |r| r.logu(0.05, 100.0)),
        ],
        Func::Sin | Func::Cos => vec![
            ("q1", |r| pm(r, 0.05, PI / 2.0 - 0.05)),
            ("q2", |r| pm(r, PI / 2.0 + 0.05, PI - 0.05)),
            ("q3", |r| pm(r, PI + 0.05, 1.5 * PI - 0.05)),
            ("q4", |r| pm(r, 1.5 * PI + 0.05, 2.0 * PI - 0.05)),
            ("neg", |r| pm(r, -2.0 * PI, -0.05)),
            ("large", |r| r.sign() * pm(r, 10.0, 50.0)),
        ],
        Func::Tan => vec![
            ("q1", |r| pm(r, 0.05, PI / 2.0 - 0.08)),
            ("q2", |r| pm(r, PI / 2.0 + 0.08, PI - 0.05)),
            ("neg-q4", |r| pm(r, -PI / 2.0 + 0.08, -0.05)),
            ("neg-q3", |r| pm(r, -PI + 0.05, -PI / 2.0 - 0.08)),
            ("beyond", |r| {
                // a few periods away, |cos| >= ~0.08
                let k = r.int(-6, 6) as f64;
                k * PI + pm(r, -PI / 2.0 + 0.08, PI / 2.0 - 0.08)
            }),
        ],
        Func::Asin | Func::Acos | Func::Atanh => vec![
            ("(-0.9,0)", |r| pm(r, -0.9, -0.05)),
            ("(0,0.9)", |r| pm(r, 0.05, 0.9)),
            ("tiny", |r| r.sign() * r.logu(1e-9, 1e-2)),
        ],
        Func::Atan | Func::Asinh => vec![
            ("neg-large", |r| -r.logu(2.0, 1e3)),
            ("neg-small", |r| -pm(r, 0.05, 2.0)),
            ("pos-small", |r| pm(r, 0.05, 2.0)),
            ("pos-large", |r| r.logu(2.0, 1e3)),
        ],
        Func::Sinh | Func::Cosh => vec![
            ("neg", |r| pm(r, -10.0, -0.05)),
            ("pos", |r| pm(r, 0.05, 10.0)),
            ("tiny", |r| r.sign() * r.logu(1e-9, 1e-2)),
        ],
        Func::Tanh => vec![
            ("neg", |r| pm(r, -2.4, -0.05)),
            ("pos", |r| pm(r, 0.05, 2.4)),
            ("neg-large", |r| pm(r, -15.0, -2.4)),
            ("pos-large", |r| pm(r, 2.4, 15.0)),
        ],
        Func::Acosh => vec![("(1.1,2)", |r| pm(r, 1.1, 2.0)), ("(2,100)", |r| r.logu(2.0, 100.0))],
        _ => vec![("pos", |r| r.logu(0.1, 10.0))],
    }
}


pub type WideRegion = (&'static str, Box<dyn Fn(&mut Rng) -> f64>);

/// Wide bands (DESIGN 7.7): arguments far from the moderate regions but still such that the fourth
/// powers of |x| and 1/|x| are representable (f64: 1e-30..1e30, f32: 1e-9..1e9) and, for the
/// exponentially growing functions, up to where the function value itself approaches the float
/// range.  Cases in which a contributing term leaves the float range are skipped by the caller.
pub fn wide_regions(f: Func, f32: bool) -> Vec<WideRegion> {
    let (lo, hi) = if f32 { (1e-9, 1e9) } else { (1e-30, 1e30) };
    let (emax, e2max) = if f32 { (85.0, 120.0) } else { (700.0, 1000.0) };
    let both = move |a: f64, b: f64| -> Box<dyn Fn(&mut Rng) -> f64> { Box::new(move |r: &mut Rng| r.sign() * r.logu(a, b)) };
    let posr = move |a: f64, b: f64| -> Box<dyn Fn(&mut Rng) -> f64> { Box::new(move |r: &mut Rng| r.logu(a, b)) };
    let lin = move |a: f64, b: f64| -> Box<dyn Fn(&mut Rng) -> f64> { Box::new(move |r: &mut Rng| r.sign() * r.range(a, b)) };
    match f {
        Func::Recip => vec![("wide:tiny", both(lo, 1e-3)), ("wide:huge", both(1e4, hi))],
        Func::Sqrt => vec![("wide:tiny", posr(lo, 0.05)), ("wide:huge", posr(1e6, hi))],
        Func::Cbrt => vec![("wide:tiny", both(lo, 0.05)), ("wide:huge", both(1e5, hi))],
        Func::Exp | Func::ExpM1 => vec![("wide:far", lin(20.0, emax))],
        Func::Exp2 => vec![("wide:far", lin(20.0, e2max))],
        Func::Ln | Func::Log(_) | Func::Log2 | Func::Log10 => vec![("wide:tiny", posr(lo, 0.05)), ("wide:huge", posr(1e6, hi))],
        Func::Ln1p => vec![("wide:huge", posr(100.0, hi)), ("wide:near-1", Box::new(|r: &mut Rng| -1.0 + r.logu(1e-3, 0.1)))],
        Func::Sin | Func::Cos => vec![("wide:huge", both(50.0, if f32 { 1e4 } else { 1e8 })), ("wide:tiny", both(lo, 1e-3))],
        Func::Tan => vec![(
            "wide:many-periods",
            Box::new(move |r: &mut Rng| {
                let k = r.int(-100000, 100000) as f64 * if f32 { 0.01 } else { 1.0 };
                k.round() * std::f64::consts::PI + r.range(-1.45, 1.45)
            }),
        ), ("wide:tiny", both(lo, 1e-3))],
        Func::Asin | Func::Acos | Func::Atanh => vec![("wide:near-end", lin(0.9, 0.99))],
        Func::Atan | Func::Asinh => vec![("wide:huge", both(1e3, hi)), ("wide:tiny", both(lo, 0.05))],
        Func::Sinh | Func::Cosh => vec![("wide:far", lin(10.0, emax)), ("wide:tiny", both(lo, 1e-9))],
        Func::Tanh => vec![("wide:far", lin(15.0, emax)), ("wide:tiny", both(lo, 0.05))],
        Func::Acosh => vec![("wide:huge", posr(100.0, hi)), ("wide:near-1", Box::new(|r: &mut Rng| 1.0 + r.logu(0.02, 0.1)))],
        _ => vec![],
    }
}

/// Model value and magnitude sums (slot convention) of f applied to an exact operand, with an
/// explicit majorant rule: `gm(k, g_k)` gives the error scale of the k-th Taylor coefficient.
pub fn model_point(
    f: Func,
    x: &crate::model::Jet<f64>,
    b: &crate::basis::Basis,
    gm: &dyn Fn(&[f64]) -> Vec<f64>,
) -> (Vec<f64>, Vec<f64>, Vec<f64>) {
    let d = b.max_deg;
    let mut g = crate::taylor::taylor(f, x.c[0], d + 1);
    for v in g.iter_mut() {
        if v.is_nan() {
            *v = 0.0;
        }
    }
    let m: Vec<f64> = gm(&g);
    let val = x.compose(&g, b);
    let mag = x.abs().compose(&m, b);
    (val.to_slots(b), mag.to_slots(b), g)
}
