//! The type zoo: concrete instantiations driven by the checks. Each list macro calls
//! `$m!(Type, "name", $($args)*)` once per type, so a check can monomorphise a generic routine
//! over the whole list.

pub use nalgebra::{Const, Dyn};
pub use num_dual::*;

pub type DD64 = Dual<Dual64, f64>;
pub type DDD64 = Dual<Dual<Dual64, f64>, f64>;
pub type D2D64 = Dual2<Dual64, f64>;
pub type DD2_64 = Dual<Dual2_64, f64>;
pub type D2D2_64 = Dual2<Dual2_64, f64>;
pub type D3D64 = Dual3<Dual64, f64>;
pub type DD3_64 = Dual<Dual3_64, f64>;
pub type HDD64 = HyperDual<Dual64, f64>;
pub type DHD64 = Dual<HyperDual64, f64>;
pub type HHDD64 = HyperHyperDual<Dual64, f64>;
pub type DDV2_64 = Dual<DualSVec64<2>, f64>;
pub type DVD2_64 = DualVec<Dual64, f64, Const<2>>;
pub type D2VD2_64 = Dual2Vec<Dual64, f64, Const<2>>;
pub type DVDD_64 = DualVec<Dual64, f64, Dyn>;
pub type HDVD_64 = HyperDualVec<Dual64, f64, Const<2>, Const<2>>;
pub type DD32 = Dual<Dual32, f32>;
pub type D2D32 = Dual2<Dual32, f32>;

/// scalar (non-vector) f64 types, all orders, plus nested ones
#[macro_export]
macro_rules! zoo_scalar64 {
    ($m:ident $(, $a:tt)*) => {
        $m!(Dual64, "Dual64" $(, $a)*);
        $m!(Dual2_64, "Dual2_64" $(, $a)*);
        $m!(Dual3_64, "Dual3_64" $(, $a)*);
        $m!(HyperDual64, "HyperDual64" $(, $a)*);
        $m!(HyperHyperDual64, "HyperHyperDual64" $(, $a)*);
    };
}
#[macro_export]
macro_rules! zoo_scalar32 {
    ($m:ident $(, $a:tt)*) => {
        $m!(Dual32, "Dual32" $(, $a)*);
        $m!(Dual2_32, "Dual2_32" $(, $a)*);
        $m!(Dual3_32, "Dual3_32" $(, $a)*);
        $m!(HyperDual32, "HyperDual32" $(, $a)*);
        $m!(HyperHyperDual32, "HyperHyperDual32" $(, $a)*);
    };
}
#[macro_export]
macro_rules! zoo_nested64 {
    ($m:ident $(, $a:tt)*) => {
        $m!($crate::zoo::DD64, "Dual<Dual64>" $(, $a)*);
        $m!($crate::zoo::DDD64, "Dual<Dual<Dual64>>" $(, $a)*);
        $m!($crate::zoo::D2D64, "Dual2<Dual64>" $(, $a)*);
        $m!($crate::zoo::DD2_64, "Dual<Dual2_64>" $(, $a)*);
        $m!($crate::zoo::D2D2_64, "Dual2<Dual2_64>" $(, $a)*);
        $m!($crate::zoo::D3D64, "Dual3<Dual64>" $(, $a)*);
        $m!($crate::zoo::HDD64, "HyperDual<Dual64>" $(, $a)*);
        $m!($crate::zoo::HHDD64, "HyperHyperDual<Dual64>" $(, $a)*);
        $m!($crate::zoo::DDV2_64, "Dual<DualSVec64<2>>" $(, $a)*);
        $m!($crate::zoo::DVD2_64, "DualVec<Dual64,2>" $(, $a)*);
        $m!($crate::zoo::D2VD2_64, "Dual2Vec<Dual64,2>" $(, $a)*);
    };
}
/// vector types, static
#[macro_export]
macro_rules! zoo_svec64 {
    ($m:ident $(, $a:tt)*) => {
        $m!(DualSVec64<1>, "DualSVec64<1>" $(, $a)*);
        $m!(DualSVec64<2>, "DualSVec64<2>" $(, $a)*);
        $m!(DualSVec64<3>, "DualSVec64<3>" $(, $a)*);
        $m!(DualSVec64<5>, "DualSVec64<5>" $(, $a)*);
        $m!(Dual2SVec64<1>, "Dual2SVec64<1>" $(, $a)*);
        $m!(Dual2SVec64<2>, "Dual2SVec64<2>" $(, $a)*);
        $m!(Dual2SVec64<3>, "Dual2SVec64<3>" $(, $a)*);
        $m!(HyperDualSVec64<1, 1>, "HyperDualSVec64<1,1>" $(, $a)*);
        $m!(HyperDualSVec64<2, 3>, "HyperDualSVec64<2,3>" $(, $a)*);
        $m!(HyperDualSVec64<3, 2>, "HyperDualSVec64<3,2>" $(, $a)*);
    };
}
#[macro_export]
macro_rules! zoo_svec32 {
    ($m:ident $(, $a:tt)*) => {
        $m!(DualSVec32<2>, "DualSVec32<2>" $(, $a)*);
        $m!(Dual2SVec32<2>, "Dual2SVec32<2>" $(, $a)*);
        $m!(HyperDualSVec32<2, 2>, "HyperDualSVec32<2,2>" $(, $a)*);
    };
}
/// vector types, dynamic (the run-time dimension is chosen by the caller)
#[macro_export]
macro_rules! zoo_dvec {
    ($m:ident $(, $a:tt)*) => {
        $m!(DualDVec64, "DualDVec64" $(, $a)*);
        $m!(Dual2DVec64, "Dual2DVec64" $(, $a)*);
        $m!(HyperDualDVec64, "HyperDualDVec64" $(, $a)*);
        $m!(DualDVec32, "DualDVec32" $(, $a)*);
        $m!(Dual2DVec32, "Dual2DVec32" $(, $a)*);
        $m!(HyperDualDVec32, "HyperDualDVec32" $(, $a)*);
    };
}
#[macro_export]
macro_rules! zoo_all {
    ($m:ident $(, $a:tt)*) => {
        $crate::zoo_scalar64!($m $(, $a)*);
        $crate::zoo_scalar32!($m $(, $a)*);
        $crate::zoo_svec64!($m $(, $a)*);
        $crate::zoo_svec32!($m $(, $a)*);
        $crate::zoo_dvec!($m $(, $a)*);
        $crate::zoo_nested64!($m $(, $a)*);
    };
}
pub type D3D2_64 = Dual3<Dual2_64, f64>;
pub type D3D3_64 = Dual3<Dual3_64, f64>;
pub type HDHD64 = HyperDual<HyperDual64, f64>;
