//! Structure of a (nested) dual number type as a truncated polynomial algebra:
//! a downward-closed monomial set in named infinitesimals, plus the map from the type's storage
//! slots (in the canonical flattening order used by `Jetty`) to monomials.

use std::collections::HashMap;

#[derive(Clone, Debug, PartialEq, Eq, Hash)]
pub enum Kind {
    Dual,
    DualVec(usize),
    Dual2,
    Dual2Vec(usize),
    Dual3,
    HyperDual,
    HyperDualVec(usize, usize),
    HyperHyperDual,
}

#[derive(Clone, Debug, PartialEq, Eq, Hash)]
pub enum Shape {
    Leaf,
    Level(Kind, Box<Shape>),
}

impl Kind {
    pub fn nvars(&self) -> usize {
        match self {
            Kind::Dual | Kind::Dual2 | Kind::Dual3 => 1,
            Kind::DualVec(n) | Kind::Dual2Vec(n) => *n,
            Kind::HyperDual => 2,
            Kind::HyperDualVec(m, n) => m + n,
            Kind::HyperHyperDual => 3,
        }
    }
    /// derivative order contributed by this level
    pub fn order(&self) -> usize {
        match self {
            Kind::Dual | Kind::DualVec(_) => 1,
            Kind::Dual2 | Kind::Dual2Vec(_) | Kind::HyperDual | Kind::HyperDualVec(_, _) => 2,
            Kind::Dual3 | Kind::HyperHyperDual => 3,
        }
    }
    /// storage slots of this level, as exponent vectors over this level's variables, in the
    /// order (field order of the struct, matrices column-major)
    pub fn slots(&self) -> Vec<Vec<u8>> {
        let nv = self.nvars();
        let z = vec![0u8; nv];
        let unit = |i: usize| {
            let mut e = z.clone();
            e[i] += 1;
            e
        };
        let two = |i: usize, j: usize| {
            let mut e = z.clone();
            e[i] += 1;
            e[j] += 1;
            e
        };
        let mut out = vec![z.clone()];
        match self {
            Kind::Dual => out.push(unit(0)),
            Kind::DualVec(n) => {
                for i in 0..*n {
                    out.push(unit(i));
                }
            }
            Kind::Dual2 => {
                out.push(unit(0));
                out.push(two(0, 0));
            }
            Kind::Dual2Vec(n) => {
                for i in 0..*n {
                    out.push(unit(i));
                }
                // v2 is n x n, column-major: slot (i,j) at j*n+i
                for j in 0..*n {
                    for i in 0..*n {
                        out.push(two(i, j));
                    }
                }
            }
            Kind::Dual3 => {
                out.push(vec![1]);
                out.push(vec![2]);
                out.push(vec![3]);
            }
            Kind::HyperDual => {
                out.push(unit(0));
                out.push(unit(1));
                out.push(two(0, 1));
            }
            Kind::HyperDualVec(m, n) => {
                for i in 0..*m {
                    out.push(unit(i));
                }
                for j in 0..*n {
                    out.push(unit(m + j));
                }
                // eps1eps2 is m x n, column-major
                for j in 0..*n {
                    for i in 0..*m {
                        out.push(two(i, m + j));
                    }
                }
            }
            Kind::HyperHyperDual => {
                out.push(unit(0));
                out.push(unit(1));
                out.push(unit(2));
                out.push(two(0, 1));
                out.push(two(0, 2));
                out.push(two(1, 2));
                out.push(vec![1, 1, 1]);
            }
        }
        out
    }
    /// optional-part groups of this level: (name, first slot, number of slots)
    pub fn groups(&self) -> Vec<(&'static str, usize, usize)> {
        match self {
            Kind::DualVec(n) => vec![("eps", 1, *n)],
            Kind::Dual2Vec(n) => vec![("v1", 1, *n), ("v2", 1 + n, n * n)],
            Kind::HyperDualVec(m, n) => {
                vec![("eps1", 1, *m), ("eps2", 1 + m, *n), ("eps1eps2", 1 + m + n, m * n)]
            }
            _ => vec![],
        }
    }
    pub fn name(&self) -> String {
        match self {
            Kind::Dual => "Dual".into(),
            Kind::DualVec(n) => format!("DualVec{}", n),
            Kind::Dual2 => "Dual2".into(),
            Kind::Dual2Vec(n) => format!("Dual2Vec{}", n),
            Kind::Dual3 => "Dual3".into(),
            Kind::HyperDual => "HyperDual".into(),
            Kind::HyperDualVec(m, n) => format!("HyperDualVec{}x{}", m, n),
            Kind::HyperHyperDual => "HyperHyperDual".into(),
        }
    }
}

impl Shape {
    pub fn level(kind: Kind, inner: Shape) -> Shape {
        Shape::Level(kind, Box::new(inner))
    }
    pub fn nslots(&self) -> usize {
        match self {
            Shape::Leaf => 1,
            Shape::Level(k, inner) => k.slots().len() * inner.nslots(),
        }
    }
    pub fn order(&self) -> usize {
        match self {
            Shape::Leaf => 0,
            Shape::Level(k, inner) => k.order() + inner.order(),
        }
    }
    pub fn depth(&self) -> usize {
        match self {
            Shape::Leaf => 0,
            Shape::Level(_, inner) => 1 + inner.depth(),
        }
    }
    pub fn name(&self) -> String {
        match self {
            Shape::Leaf => "F".into(),
            Shape::Level(k, inner) => format!("{}<{}>", k.name(), inner.name()),
        }
    }
    /// all storage slots as exponent vectors over all variables (outer level's variables first)
    pub fn slot_exponents(&self) -> Vec<Vec<u8>> {
        match self {
            Shape::Leaf => vec![vec![]],
            Shape::Level(k, inner) => {
                let outer = k.slots();
                let inn = inner.slot_exponents();
                let mut out = Vec::with_capacity(outer.len() * inn.len());
                for o in &outer {
                    for i in &inn {
                        let mut e = o.clone();
                        e.extend_from_slice(i);
                        out.push(e);
                    }
                }
                out
            }
        }
    }
}

/// The truncated polynomial algebra of a shape.
#[derive(Clone, Debug)]
pub struct Basis {
    pub shape: Shape,
    pub nvars: usize,
    /// distinct monomials (exponent vectors); index 0 is the constant monomial
    pub monos: Vec<Vec<u8>>,
    /// total degree per monomial
    pub deg: Vec<usize>,
    /// alpha! per monomial
    pub fact: Vec<f64>,
    /// product table: mul[i*n+j] = index of monos[i]*monos[j] if inside the set, else usize::MAX
    pub mul: Vec<usize>,
    /// storage slot -> monomial index
    pub slot_mono: Vec<usize>,
    /// highest total degree
    pub max_deg: usize,
}

pub const NONE: usize = usize::MAX;

impl Basis {
    pub fn new(shape: &Shape) -> Basis {
        let slots = shape.slot_exponents();
        let nvars = slots[0].len();
        let mut monos: Vec<Vec<u8>> = Vec::new();
        let mut index: HashMap<Vec<u8>, usize> = HashMap::new();
        let mut slot_mono = Vec::with_capacity(slots.len());
        for s in &slots {
            let id = *index.entry(s.clone()).or_insert_with(|| {
                monos.push(s.clone());
                monos.len() - 1
            });
            slot_mono.push(id);
        }
        assert!(monos[0].iter().all(|&e| e == 0));
        let n = monos.len();
        let deg: Vec<usize> = monos.iter().map(|m| m.iter().map(|&e| e as usize).sum()).collect();
        let fact: Vec<f64> = monos
            .iter()
            .map(|m| m.iter().map(|&e| (1..=e as u64).product::<u64>() as f64).product())
            .collect();
        let mut mul = vec![NONE; n * n];
        for i in 0..n {
            for j in 0..n {
                let p: Vec<u8> = monos[i].iter().zip(&monos[j]).map(|(a, b)| a + b).collect();
                if let Some(&k) = index.get(&p) {
                    mul[i * n + j] = k;
                }
            }
        }
        // downward closure sanity check: every divisor of a monomial is in the set
        for m in &monos {
            for v in 0..nvars {
                if m[v] > 0 {
                    let mut d = m.clone();
                    d[v] -= 1;
                    assert!(index.contains_key(&d), "monomial set not downward closed");
                }
            }
        }
        let max_deg = deg.iter().cloned().max().unwrap_or(0);
        Basis { shape: shape.clone(), nvars, monos, deg, fact, mul, slot_mono, max_deg }
    }
    pub fn n(&self) -> usize {
        self.monos.len()
    }
    pub fn nslots(&self) -> usize {
        self.slot_mono.len()
    }
    pub fn mono_name(&self, i: usize) -> String {
        if self.deg[i] == 0 {
            return "1".into();
        }
        let mut s = String::new();
        for (v, &e) in self.monos[i].iter().enumerate() {
            if e > 0 {
                s.push_str(&format!("e{}", v));
                if e > 1 {
                    s.push_str(&format!("^{}", e));
                }
            }
        }
        s
    }
}
