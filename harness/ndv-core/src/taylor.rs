//! Univariate Taylor coefficients g_k = g^(k)(x0)/k! of every function of the interface, produced
//! by power-series recurrences (not by the closed forms f', f'', f''' the crate uses), plus
//! majorant coefficients used in the rounding-error bound.

extern "C" {
    fn jn(n: i32, x: f64) -> f64;
}

pub fn bessel_jn(n: i32, x: f64) -> f64 {
    unsafe { jn(n, x) }
}

#[derive(Clone, Copy, Debug, PartialEq)]
pub enum Func {
    Recip,
    Sqrt,
    Cbrt,
    Exp,
    Exp2,
    ExpM1,
    Ln,
    Log(f64),
    Log2,
    Log10,
    Ln1p,
    Sin,
    Cos,
    Tan,
    Asin,
    Acos,
    Atan,
    Sinh,
    Cosh,
    Tanh,
    Asinh,
    Acosh,
    Atanh,
    Powi(i32),
    Powf(f64),
    SphJ0,
    SphJ1,
    SphJ2,
    BesselJ0,
    BesselJ1,
    BesselJ2,
}

impl Func {
    pub fn name(&self) -> String {
        match self {
            Func::Log(b) => format!("log({})", b),
            Func::Powi(n) => format!("powi({})", n),
            Func::Powf(n) => format!("powf({:e})", n),
            f => format!("{:?}", f).to_lowercase(),
        }
    }
    pub fn short(&self) -> &'static str {
        match self {
            Func::Recip => "recip",
            Func::Sqrt => "sqrt",
            Func::Cbrt => "cbrt",
            Func::Exp => "exp",
            Func::Exp2 => "exp2",
            Func::ExpM1 => "exp_m1",
            Func::Ln => "ln",
            Func::Log(_) => "log",
            Func::Log2 => "log2",
            Func::Log10 => "log10",
            Func::Ln1p => "ln_1p",
            Func::Sin => "sin",
            Func::Cos => "cos",
            Func::Tan => "tan",
            Func::Asin => "asin",
            Func::Acos => "acos",
            Func::Atan => "atan",
            Func::Sinh => "sinh",
            Func::Cosh => "cosh",
            Func::Tanh => "tanh",
            Func::Asinh => "asinh",
            Func::Acosh => "acosh",
            Func::Atanh => "atanh",
            Func::Powi(_) => "powi",
            Func::Powf(_) => "powf",
            Func::SphJ0 => "sph_j0",
            Func::SphJ1 => "sph_j1",
            Func::SphJ2 => "sph_j2",
            Func::BesselJ0 => "bessel_j0",
            Func::BesselJ1 => "bessel_j1",
            Func::BesselJ2 => "bessel_j2",
        }
    }
}

// ---------------------------------------------------------------- power series helpers
pub type Ser = Vec<f64>;

pub fn ser_mul(a: &Ser, b: &Ser) -> Ser {
    let n = a.len();
    let mut r = vec![0.0; n];
    for i in 0..n {
        if a[i] == 0.0 {
            continue;
        }
        for j in 0..n - i {
            r[i + j] += a[i] * b[j];
        }
    }
    r
}

pub fn ser_div(a: &Ser, b: &Ser) -> Ser {
    let n = a.len();
    let mut r = vec![0.0; n];
    for k in 0..n {
        let mut s = a[k];
        for j in 0..k {
            s -= r[j] * b[k - j];
        }
        r[k] = s / b[0];
    }
    r
}

/// y = a^p with given y0 = a0^p
pub fn ser_pow(a: &Ser, p: f64, y0: f64) -> Ser {
    let n = a.len();
    let mut y = vec![0.0; n];
    y[0] = y0;
    for k in 1..n {
        let mut s = 0.0;
        for i in 1..=k {
            s += (p * i as f64 - (k - i) as f64) * a[i] * y[k - i];
        }
        y[k] = s / (k as f64 * a[0]);
    }
    y
}

pub fn ser_exp(a: &Ser, y0: f64) -> Ser {
    let n = a.len();
    let mut y = vec![0.0; n];
    y[0] = y0;
    for k in 1..n {
        let mut s = 0.0;
        for i in 1..=k {
            s += i as f64 * a[i] * y[k - i];
        }
        y[k] = s / k as f64;
    }
    y
}

pub fn ser_ln(a: &Ser, y0: f64) -> Ser {
    let n = a.len();
    let mut y = vec![0.0; n];
    y[0] = y0;
    for k in 1..n {
        let mut s = k as f64 * a[k];
        for i in 1..k {
            s -= i as f64 * y[i] * a[k - i];
        }
        y[k] = s / (k as f64 * a[0]);
    }
    y
}

pub fn ser_integrate(a: &Ser, y0: f64) -> Ser {
    let n = a.len();
    let mut y = vec![0.0; n];
    y[0] = y0;
    for k in 1..n {
        y[k] = a[k - 1] / k as f64;
    }
    y
}

fn var(x0: f64, n: usize) -> Ser {
    let mut v = vec![0.0; n];
    v[0] = x0;
    if n > 1 {
        v[1] = 1.0;
    }
    v
}

fn sincos_ser(x0: f64, n: usize) -> (Ser, Ser) {
    let (s, c) = x0.sin_cos();
    let mut ss = vec![0.0; n];
    let mut cs = vec![0.0; n];
    let mut f = 1.0;
    for k in 0..n {
        if k > 0 {
            f /= k as f64;
        }
        let (a, b) = match k % 4 {
            0 => (s, c),
            1 => (c, -s),
            2 => (-s, -c),
            _ => (-c, s),
        };
        ss[k] = a * f;
        cs[k] = b * f;
    }
    (ss, cs)
}

/// Maclaurin coefficients of the spherical Bessel function j_n, up to degree m
fn sph_maclaurin(order: usize, m: usize) -> Vec<f64> {
    // j_n(x) = sum_k (-1)^k x^(n+2k) / (2^k k! (2n+2k+1)!!)
    let mut a = vec![0.0; m + 1];
    let mut k = 0usize;
    loop {
        let deg = order + 2 * k;
        if deg > m {
            break;
        }
        let mut den = 1.0f64;
        for i in 1..=k {
            den *= 2.0 * i as f64;
        }
        let mut dd = 1.0f64;
        let mut t = (2 * order + 2 * k + 1) as i64;
        while t > 1 {
            dd *= t as f64;
            t -= 2;
        }
        a[deg] = if k % 2 == 0 { 1.0 } else { -1.0 } / (den * dd);
        k += 1;
    }
    a
}

fn binom(m: usize, k: usize) -> f64 {
    let mut r = 1.0f64;
    for i in 0..k {
        r = r * (m - i) as f64 / (i + 1) as f64;
    }
    r
}

fn sph_ser(order: usize, x0: f64, n: usize) -> Ser {
    if x0.abs() < 2.0 {
        let m = 70;
        let a = sph_maclaurin(order, m);
        let mut out = vec![0.0; n];
        for k in 0..n {
            let mut s = 0.0;
            // sum_m a_m C(m,k) x0^(m-k), highest powers first
            for mm in (k..=m).rev() {
                if a[mm] != 0.0 {
                    s += a[mm] * binom(mm, k) * x0.powi((mm - k) as i32);
                }
            }
            out[k] = s;
        }
        out
    } else {
        let (s, c) = sincos_ser(x0, n);
        let x = var(x0, n);
        match order {
            0 => ser_div(&s, &x),
            1 => {
                let xc = ser_mul(&x, &c);
                let num: Ser = s.iter().zip(&xc).map(|(a, b)| a - b).collect();
                ser_div(&num, &ser_mul(&x, &x))
            }
            _ => {
                let x2 = ser_mul(&x, &x);
                let mut t = x2.iter().map(|v| -v).collect::<Ser>();
                t[0] += 3.0;
                let a = ser_mul(&t, &s);
                let b = ser_mul(&x, &c);
                let num: Ser = a.iter().zip(&b).map(|(a, b)| a - 3.0 * b).collect();
                ser_div(&num, &ser_mul(&x2, &x))
            }
        }
    }
}

fn bessel_ser(order: i32, x0: f64, n: usize) -> Ser {
    // J_n^(k) = 2^-k sum_j (-1)^j C(k,j) J_{n-k+2j}
    let mut out = vec![0.0; n];
    let mut kfact = 1.0;
    for k in 0..n {
        if k > 0 {
            kfact *= k as f64;
        }
        let mut s = 0.0;
        for j in 0..=k {
            let sign = if j % 2 == 0 { 1.0 } else { -1.0 };
            s += sign * binom(k, j) * bessel_jn(order - k as i32 + 2 * j as i32, x0);
        }
        out[k] = s / (2.0f64).powi(k as i32) / kfact;
    }
    out
}

/// Taylor coefficients g_0..g_{n-1} of `f` at x0.
pub fn taylor(f: Func, x0: f64, n: usize) -> Ser {
    let x = var(x0, n);
    match f {
        Func::Recip => {
            let mut one = vec![0.0; n];
            one[0] = 1.0;
            ser_div(&one, &x)
        }
        Func::Sqrt => ser_pow(&x, 0.5, x0.sqrt()),
        Func::Cbrt => ser_pow(&x, 1.0 / 3.0, x0.cbrt()),
        Func::Exp => ser_exp(&x, x0.exp()),
        Func::Exp2 => {
            let l2 = std::f64::consts::LN_2;
            let a: Ser = x.iter().map(|v| v * l2).collect();
            ser_exp(&a, x0.exp2())
        }
        Func::ExpM1 => {
            let mut y = ser_exp(&x, x0.exp());
            y[0] = x0.exp_m1();
            y
        }
        Func::Ln => ser_ln(&x, x0.ln()),
        Func::Log(b) => {
            let lb = b.ln();
            let mut y: Ser = ser_ln(&x, x0.ln()).iter().map(|v| v / lb).collect();
            y[0] = x0.log(b);
            y
        }
        Func::Log2 => {
            let lb = std::f64::consts::LN_2;
            let mut y: Ser = ser_ln(&x, x0.ln()).iter().map(|v| v / lb).collect();
            y[0] = x0.log2();
            y
        }
        Func::Log10 => {
            let lb = std::f64::consts::LN_10;
            let mut y: Ser = ser_ln(&x, x0.ln()).iter().map(|v| v / lb).collect();
            y[0] = x0.log10();
            y
        }
        Func::Ln1p => {
            let a = var(1.0 + x0, n);
            ser_ln(&a, x0.ln_1p())
        }
        Func::Sin => sincos_ser(x0, n).0,
        Func::Cos => sincos_ser(x0, n).1,
        Func::Tan => {
            let (s, c) = sincos_ser(x0, n);
            let mut y = ser_div(&s, &c);
            y[0] = x0.tan();
            y
        }
        Func::Asin | Func::Acos => {
            // d/dx = +-(1-x^2)^(-1/2)
            let mut a = vec![0.0; n];
            a[0] = (1.0 - x0) * (1.0 + x0);
            if n > 1 {
                a[1] = -2.0 * x0;
            }
            if n > 2 {
                a[2] = -1.0;
            }
            let d = ser_pow(&a, -0.5, 1.0 / a[0].sqrt());
            if f == Func::Asin {
                ser_integrate(&d, x0.asin())
            } else {
                let d: Ser = d.iter().map(|v| -v).collect();
                ser_integrate(&d, x0.acos())
            }
        }
        Func::Atan => {
            let mut a = vec![0.0; n];
            a[0] = 1.0 + x0 * x0;
            if n > 1 {
                a[1] = 2.0 * x0;
            }
            if n > 2 {
                a[2] = 1.0;
            }
            let mut one = vec![0.0; n];
            one[0] = 1.0;
            ser_integrate(&ser_div(&one, &a), x0.atan())
        }
        Func::Sinh | Func::Cosh => {
            let (s, c) = (x0.sinh(), x0.cosh());
            let mut y = vec![0.0; n];
            let mut fct = 1.0;
            for k in 0..n {
                if k > 0 {
                    fct /= k as f64;
                }
                let even = k % 2 == 0;
                y[k] = fct * if (f == Func::Sinh) == even { s } else { c };
            }
            y
        }
        Func::Tanh => {
            // T' = U, U' = -2 T U, with U(x0) = 1/cosh^2 formed without cancellation
            let mut t = vec![0.0; n];
            let mut u = vec![0.0; n];
            t[0] = x0.tanh();
            let ch = x0.cosh();
            u[0] = 1.0 / ch / ch;
            for k in 0..n - 1 {
                t[k + 1] = u[k] / (k + 1) as f64;
                let mut s = 0.0;
                for i in 0..=k {
                    s += t[i] * u[k - i];
                }
                u[k + 1] = -2.0 * s / (k + 1) as f64;
            }
            t
        }
        Func::Asinh => {
            let mut a = vec![0.0; n];
            a[0] = 1.0 + x0 * x0;
            if n > 1 {
                a[1] = 2.0 * x0;
            }
            if n > 2 {
                a[2] = 1.0;
            }
            let d = ser_pow(&a, -0.5, 1.0 / a[0].sqrt());
            ser_integrate(&d, x0.asinh())
        }
        Func::Acosh => {
            let mut a = vec![0.0; n];
            a[0] = (x0 - 1.0) * (x0 + 1.0);
            if n > 1 {
                a[1] = 2.0 * x0;
            }
            if n > 2 {
                a[2] = 1.0;
            }
            let d = ser_pow(&a, -0.5, 1.0 / a[0].sqrt());
            ser_integrate(&d, x0.acosh())
        }
        Func::Atanh => {
            let mut a = vec![0.0; n];
            a[0] = (1.0 - x0) * (1.0 + x0);
            if n > 1 {
                a[1] = -2.0 * x0;
            }
            if n > 2 {
                a[2] = -1.0;
            }
            let mut one = vec![0.0; n];
            one[0] = 1.0;
            ser_integrate(&ser_div(&one, &a), x0.atanh())
        }
        Func::Powi(p) => pow_taylor(x0, p as f64, true, n),
        Func::Powf(p) => pow_taylor(x0, p, p.fract() == 0.0 && p.abs() < 1e15, n),
        Func::SphJ0 => sph_ser(0, x0, n),
        Func::SphJ1 => sph_ser(1, x0, n),
        Func::SphJ2 => sph_ser(2, x0, n),
        Func::BesselJ0 => bessel_ser(0, x0, n),
        Func::BesselJ1 => bessel_ser(1, x0, n),
        Func::BesselJ2 => bessel_ser(2, x0, n),
    }
}

/// x^p around x0: g_k = C(p,k) x0^(p-k). `integer`: p is an integer (negative bases allowed).
fn pow_taylor(x0: f64, p: f64, integer: bool, n: usize) -> Ser {
    let mut y = vec![0.0; n];
    if x0 == 0.0 {
        // only finite cases: integer p >= 0 (g_p = 1), or p > k for all requested k (all zero)
        if integer && p >= 0.0 {
            let k = p as usize;
            if k < n {
                y[k] = 1.0;
            }
        } else {
            for k in 0..n {
                y[k] = if p > k as f64 { 0.0 } else { f64::NAN };
            }
        }
        return y;
    }
    if integer && (0.0..=64.0).contains(&p) {
        // polynomial: g_k = C(p,k) x0^(p-k) directly (no division by x0, safe against underflow)
        let pi = p as usize;
        for k in 0..n.min(pi + 1) {
            y[k] = binom(pi, k) * x0.powi((pi - k) as i32);
        }
        return y;
    }
    let y0 = if integer && p.abs() <= i32::MAX as f64 { x0.powi(p as i32) } else { x0.powf(p) };
    y[0] = y0;
    for k in 1..n {
        // g_k = g_{k-1} * (p-k+1)/(k x0)
        y[k] = y[k - 1] * (p - (k - 1) as f64) / (k as f64 * x0);
    }
    y
}

/// distance from x0 to the nearest singularity of f (None: entire / errors relative to each
/// coefficient)
pub fn radius(f: Func, x0: f64) -> Option<f64> {
    use std::f64::consts::PI;
    match f {
        Func::Recip | Func::Sqrt | Func::Cbrt | Func::Ln | Func::Log(_) | Func::Log2 | Func::Log10 => {
            Some(x0.abs())
        }
        Func::Powi(p) => {
            if p >= 0 {
                None
            } else {
                Some(x0.abs())
            }
        }
        Func::Powf(p) => {
            if p.fract() == 0.0 && p >= 0.0 {
                None
            } else {
                Some(x0.abs())
            }
        }
        Func::Ln1p => Some((1.0 + x0).abs()),
        Func::Tan => {
            let k = ((x0 - PI / 2.0) / PI).round();
            Some((x0 - (PI / 2.0 + k * PI)).abs())
        }
        Func::Asin | Func::Acos | Func::Atanh => Some(1.0 - x0.abs()),
        Func::Acosh => Some(x0 - 1.0),
        Func::Atan | Func::Asinh => Some((1.0 + x0 * x0).sqrt()),
        Func::Tanh => Some((x0 * x0 + PI * PI / 4.0).sqrt()),
        // closed forms divide by powers of x
        Func::SphJ0 | Func::SphJ1 | Func::SphJ2 => {
            if x0.abs() >= 1.0 {
                Some(x0.abs())
            } else {
                None
            }
        }
        _ => None,
    }
}

/// majorant coefficients: hat g_k = max_{j<=k} |g_j| / rho^(k-j)
pub fn majorant(f: Func, x0: f64, g: &Ser) -> Ser {
    majorant_depth(f, x0, g, usize::MAX)
}

/// `depth`: nesting depth of the type the function is applied to (1 = derivative parts are plain floats)
pub fn majorant_depth(f: Func, x0: f64, g: &Ser, depth: usize) -> Ser {
    let mut m: Ser = g.iter().map(|v| v.abs()).collect();
    if matches!(f, Func::SphJ0 | Func::SphJ1 | Func::SphJ2) {
        // closed forms combine sin/cos terms of size 1/|x|: accuracy is absolute at that level
        // (the k-th Taylor coefficient of 1/x^(n+1) carries the binomial factor C(k+n, n))
        let n = match f {
            Func::SphJ0 => 0,
            Func::SphJ1 => 1,
            _ => 2,
        };
        let lvl = 1.0 / x0.abs().max(1.0);
        for (k, v) in m.iter_mut().enumerate() {
            let binom: f64 = (1..=n).map(|i| (k + i) as f64 / i as f64).product();
            *v = v.max(lvl * binom);
        }
    }
    if let Some(rho) = radius(f, x0) {
        // Functions whose derivatives are algebraic in x and do not involve the function value
        // (atan' = 1/(1+x^2), ln' = 1/x, ...): the chain starts at the first derivative.  Starting it
        // at g_0 would let the constant part of the value (atan x ~ pi/2, ln x ~ 69 at 1e30) swamp
        // derivatives that decay like 1/x^2 and make the comparison vacuous at large arguments.
        let start = if matches!(f, Func::Atan | Func::Asinh | Func::Acosh | Func::Asin | Func::Acos | Func::Atanh | Func::Ln | Func::Log(_) | Func::Log2 | Func::Log10 | Func::Ln1p) { 2 } else { 1 };
        for k in start..m.len() {
            m[k] = m[k].max(m[k - 1] / rho);
        }
        // The chain is a worst-case envelope; where it is far above what a backward-stable evaluation
        // of the k-th coefficient at a rounded argument gives -- |g_k| + (k+1)|x||g_{k+1}|, the value
        // plus its sensitivity to a relative perturbation of x -- the tighter of the two is used
        // (four times the latter; NDV_SENS=<factor> overrides, 0 = off).  Only for types whose derivative
        // parts are plain floats: on nested types the inner arithmetic adds absolute errors of the size
        // of the envelope (DESIGN 7.8).
        let sens = sens_factor();
        if sens > 0.0 && depth == 1 && !matches!(f, Func::SphJ0 | Func::SphJ1 | Func::SphJ2) {
            for k in 1..m.len() {
                let next = if k + 1 < g.len() { g[k + 1].abs() } else { 0.0 };
                let s = g[k].abs() + (k as f64 + 1.0) * x0.abs() * next;
                if next.is_finite() && s.is_finite() && k + 1 < g.len() {
                    m[k] = m[k].min(sens * s).max(g[k].abs());
                }
            }
        }
    }
    m
}

fn sens_factor() -> f64 {
    use std::sync::OnceLock;
    static S: OnceLock<f64> = OnceLock::new();
    *S.get_or_init(|| std::env::var("NDV_SENS").ok().and_then(|v| v.parse().ok()).unwrap_or(4.0))
}
