//! Model values with a running first-order rounding-error bound.
//! `v` is the model value (Taylor coefficients), `e` a jet of non-negative numbers such that the
//! error of a faithful floating-point evaluation of the same operations is at most
//! (small constant) * u * e, coefficient by coefficient (to first order in u).
//! Every operation charges u times the sum of the absolute values of the terms it adds up
//! (so cancellation is charged to the operation that cancels) and propagates incoming bounds
//! through the absolute values of its partial derivatives.

use crate::basis::Basis;
use crate::model::Jet;
use crate::taylor::{self, Func};

thread_local! {
    static TRACK_U: std::cell::Cell<f64> = const { std::cell::Cell::new(1.1102230246251565e-16) };
}
/// unit roundoff of the type whose evaluation is being bounded (per thread)
pub fn set_u(u: f64) {
    TRACK_U.with(|c| c.set(u));
}
pub fn cur_u() -> f64 {
    TRACK_U.with(|c| c.get())
}

#[derive(Clone, Debug)]
pub struct Tr {
    pub v: Jet<f64>,
    pub e: Jet<f64>,
}

impl Tr {
    /// an input: exact up to the model's own representation rounding (division by alpha!)
    pub fn exact(v: Jet<f64>, _b: &Basis) -> Tr {
        let mut e = v.abs();
        e.c[0] = 0.0;
        Tr { v, e }
    }
    /// upper bound on the magnitude of the evaluated value: |model| + u * bound (keeps products of
    /// two rounding residues inside the bound)
    pub fn amax(&self) -> Jet<f64> {
        self.v.abs().add(&self.e.scale(&cur_u()))
    }
    pub fn constant(b: &Basis, x: f64) -> Tr {
        Tr { v: Jet::constant(b, x), e: Jet::zero(b) }
    }
    pub fn re(&self) -> f64 {
        self.v.c[0]
    }
    pub fn add(&self, o: &Tr) -> Tr {
        let v = self.v.add(&o.v);
        let e = self.e.add(&o.e).add(&self.v.abs().add(&o.v.abs()));
        Tr { v, e }
    }
    pub fn sub(&self, o: &Tr) -> Tr {
        let v = self.v.sub(&o.v);
        let e = self.e.add(&o.e).add(&self.v.abs().add(&o.v.abs()));
        Tr { v, e }
    }
    pub fn neg(&self) -> Tr {
        Tr { v: self.v.neg(), e: self.e.clone() }
    }
    pub fn mul(&self, o: &Tr, b: &Basis) -> Tr {
        let v = self.v.mul(&o.v, b);
        let a = self.amax();
        let c = o.amax();
        let e = a.mul(&o.e, b).add(&c.mul(&self.e, b)).add(&a.mul(&c, b).scale(&2.0));
        Tr { v, e }
    }
    pub fn scale(&self, s: f64) -> Tr {
        let v = self.v.scale(&s);
        let e = self.e.scale(&s.abs()).add(&v.abs());
        Tr { v, e }
    }
    pub fn add_scalar(&self, s: f64) -> Tr {
        let mut v = self.v.clone();
        v.c[0] += s;
        let mut e = self.e.clone();
        e.c[0] += self.v.c[0].abs() + s.abs();
        Tr { v, e }
    }
    /// apply a univariate function given Taylor coefficients g (len >= D+2) and majorants gm
    pub fn compose(&self, g: &[f64], gm: &[f64], b: &Basis) -> Tr {
        let d = b.max_deg;
        assert!(g.len() >= d + 2 && gm.len() >= d + 2);
        let v = self.v.compose(&g[..=d], b);
        let ax = self.amax();
        // local rounding: sum of |terms| with majorant coefficients
        let mag = ax.compose(&gm[..=d], b);
        // propagation: majorant of g' composed with |x~|, times e_x
        let dm: Vec<f64> = (0..=d).map(|k| (k + 1) as f64 * gm[k + 1]).collect();
        // the derivative majorant is evaluated over the whole uncertainty of the operand: the
        // real part's own error u*e_0 enters like a nilpotent magnitude (covers e.g. cos(delta)
        // where the model operand is exactly 0 and the evaluated one a rounding residue)
        let mut axd = ax.nil();
        axd.c[0] = cur_u() * self.e.c[0];
        let mut dj = Jet::constant(b, dm[d]);
        for k in (0..d).rev() {
            dj = dj.mul(&axd, b);
            dj.c[0] += dm[k];
        }
        let e = dj.mul(&self.e, b).add(&mag.scale(&2.0));
        Tr { v, e }
    }
    pub fn func(&self, f: Func, b: &Basis) -> Tr {
        let d = b.max_deg;
        let g = taylor::taylor(f, self.re(), d + 2);
        let mut gm = taylor::majorant_depth(f, self.re(), &g, b.shape.depth());
        // integer and real powers go through x^(n-3) * x * x * x and a repeated-squaring powi:
        // charge the extra roundings
        let extra = match f {
            // repeated squaring doubles the accumulated relative error at every step: ~|n| u / 2
            // (powers of +-1 are exact)
            Func::Powi(n) => 2.0 + (n.unsigned_abs().max(1) as f64).log2() + if self.re().abs() == 1.0 { 0.0 } else { n.unsigned_abs() as f64 / 8.0 },
            Func::Powf(_) => 2.0,
            _ => 1.0,
        };
        if extra != 1.0 {
            for v in gm.iter_mut() {
                *v *= extra;
            }
        }
        self.compose(&g, &gm, b)
    }
    pub fn recip(&self, b: &Basis) -> Tr {
        self.func(Func::Recip, b)
    }
    pub fn div(&self, o: &Tr, b: &Basis) -> Tr {
        self.mul(&o.recip(b), b)
    }
    /// slot values (derivative convention) and the matching error magnitudes
    pub fn slots(&self, b: &Basis) -> (Vec<f64>, Vec<f64>) {
        (self.v.to_slots(b), self.e.to_slots(b))
    }
    pub fn all_finite(&self) -> bool {
        self.v.c.iter().all(|x| x.is_finite()) && self.e.c.iter().all(|x| x.is_finite())
    }
}
