//! Reference model: arithmetic in the truncated polynomial algebra R[e_1..e_k]/(monomials outside
//! the set), with elements stored as *Taylor coefficients* (derivative value / alpha!).
//! Elementary functions are composed with univariate Taylor coefficient lists by Horner's rule in
//! the nilpotent part. Generic over the scalar so that the same code runs in f64 and in exact
//! dyadic rationals.

use crate::basis::{Basis, NONE};

pub trait Sc: Clone + std::fmt::Debug {
    fn zero() -> Self;
    fn one() -> Self;
    fn from_f64(x: f64) -> Self;
    fn to_f64(&self) -> f64;
    fn add(&self, o: &Self) -> Self;
    fn sub(&self, o: &Self) -> Self;
    fn mul(&self, o: &Self) -> Self;
    fn div(&self, o: &Self) -> Self;
    fn neg(&self) -> Self;
    fn is_zero(&self) -> bool;
}

impl Sc for f64 {
    fn zero() -> Self {
        0.0
    }
    fn one() -> Self {
        1.0
    }
    fn from_f64(x: f64) -> Self {
        x
    }
    fn to_f64(&self) -> f64 {
        *self
    }
    fn add(&self, o: &Self) -> Self {
        self + o
    }
    fn sub(&self, o: &Self) -> Self {
        self - o
    }
    fn mul(&self, o: &Self) -> Self {
        self * o
    }
    fn div(&self, o: &Self) -> Self {
        self / o
    }
    fn neg(&self) -> Self {
        -self
    }
    fn is_zero(&self) -> bool {
        *self == 0.0
    }
}

/// Exact dyadic rational m * 2^e (m odd or zero). Panics on anything inexact.
#[derive(Clone, Debug, PartialEq, Eq)]
pub struct Dyadic {
    pub m: i128,
    pub e: i32,
}

thread_local! {
    /// widest odd mantissa (in bits) produced by any dyadic operation since the last reset
    pub static DYADIC_MAXBITS: std::cell::Cell<u32> = const { std::cell::Cell::new(0) };
}
pub fn dyadic_reset_bits() {
    DYADIC_MAXBITS.with(|c| c.set(0));
}
pub fn dyadic_max_bits() -> u32 {
    DYADIC_MAXBITS.with(|c| c.get())
}

impl Dyadic {
    fn norm(mut m: i128, mut e: i32) -> Dyadic {
        if m == 0 {
            return Dyadic { m: 0, e: 0 };
        }
        while m & 1 == 0 {
            m >>= 1;
            e += 1;
        }
        let bits = 128 - m.unsigned_abs().leading_zeros();
        DYADIC_MAXBITS.with(|c| {
            if bits > c.get() {
                c.set(bits)
            }
        });
        Dyadic { m, e }
    }
    /// Some(f) if exactly representable as a normal f64
    pub fn to_f64_exact(&self) -> Option<f64> {
        if self.m == 0 {
            return Some(0.0);
        }
        if self.m.unsigned_abs() >= (1u128 << 53) {
            return None;
        }
        if self.e < -1000 || self.e > 900 {
            return None;
        }
        Some(self.m as f64 * (2.0f64).powi(self.e))
    }
    pub fn to_f32_exact(&self) -> Option<f32> {
        if self.m == 0 {
            return Some(0.0);
        }
        if self.m.unsigned_abs() >= (1u128 << 24) {
            return None;
        }
        if self.e < -120 || self.e > 100 {
            return None;
        }
        Some(self.m as f32 * (2.0f32).powi(self.e))
    }
}

impl Sc for Dyadic {
    fn zero() -> Self {
        Dyadic { m: 0, e: 0 }
    }
    fn one() -> Self {
        Dyadic { m: 1, e: 0 }
    }
    fn from_f64(x: f64) -> Self {
        assert!(x.is_finite());
        if x == 0.0 {
            return Dyadic::zero();
        }
        let bits = x.to_bits();
        let sign: i128 = if bits >> 63 == 1 { -1 } else { 1 };
        let exp = ((bits >> 52) & 0x7ff) as i32;
        let frac = (bits & ((1u64 << 52) - 1)) as i128;
        let (m, e) = if exp == 0 { (frac, -1074) } else { (frac | (1i128 << 52), exp - 1075) };
        Dyadic::norm(sign * m, e)
    }
    fn to_f64(&self) -> f64 {
        self.m as f64 * (2.0f64).powi(self.e)
    }
    fn add(&self, o: &Self) -> Self {
        if self.m == 0 {
            return o.clone();
        }
        if o.m == 0 {
            return self.clone();
        }
        let e = self.e.min(o.e);
        let sa = (self.e - e) as u32;
        let sb = (o.e - e) as u32;
        assert!(sa < 100 && sb < 100, "dyadic exponent spread too large");
        let a = self.m.checked_shl(sa).unwrap();
        let b = o.m.checked_shl(sb).unwrap();
        assert!(a >> sa == self.m && b >> sb == o.m, "dyadic overflow");
        Dyadic::norm(a.checked_add(b).expect("dyadic overflow"), e)
    }
    fn sub(&self, o: &Self) -> Self {
        self.add(&o.neg())
    }
    fn mul(&self, o: &Self) -> Self {
        Dyadic::norm(self.m.checked_mul(o.m).expect("dyadic overflow"), self.e + o.e)
    }
    fn div(&self, o: &Self) -> Self {
        assert!(o.m == 1 || o.m == -1, "dyadic division by a non power of two");
        Dyadic::norm(self.m * o.m, self.e - o.e)
    }
    fn neg(&self) -> Self {
        Dyadic { m: -self.m, e: self.e }
    }
    fn is_zero(&self) -> bool {
        self.m == 0
    }
}

/// Element of the truncated algebra; `c[i]` is the Taylor coefficient of monomial i.
#[derive(Clone, Debug)]
pub struct Jet<S: Sc> {
    pub c: Vec<S>,
}

impl<S: Sc> Jet<S> {
    pub fn zero(b: &Basis) -> Self {
        Jet { c: vec![S::zero(); b.n()] }
    }
    pub fn constant(b: &Basis, x: S) -> Self {
        let mut j = Self::zero(b);
        j.c[0] = x;
        j
    }
    /// from storage-slot values in derivative convention (symmetric duplicates must agree; the
    /// last one wins)
    pub fn from_slots(b: &Basis, slots: &[f64]) -> Self {
        assert_eq!(slots.len(), b.nslots());
        let mut j = Self::zero(b);
        for (s, &v) in slots.iter().enumerate() {
            let m = b.slot_mono[s];
            j.c[m] = S::from_f64(v).div(&S::from_f64(b.fact[m]));
        }
        j
    }
    /// derivative-convention value per storage slot
    pub fn to_slots(&self, b: &Basis) -> Vec<S> {
        (0..b.nslots())
            .map(|s| {
                let m = b.slot_mono[s];
                self.c[m].mul(&S::from_f64(b.fact[m]))
            })
            .collect()
    }
    pub fn add(&self, o: &Self) -> Self {
        Jet { c: self.c.iter().zip(&o.c).map(|(a, b)| a.add(b)).collect() }
    }
    pub fn sub(&self, o: &Self) -> Self {
        Jet { c: self.c.iter().zip(&o.c).map(|(a, b)| a.sub(b)).collect() }
    }
    pub fn neg(&self) -> Self {
        Jet { c: self.c.iter().map(|a| a.neg()).collect() }
    }
    pub fn scale(&self, s: &S) -> Self {
        Jet { c: self.c.iter().map(|a| a.mul(s)).collect() }
    }
    pub fn mul(&self, o: &Self, b: &Basis) -> Self {
        let n = b.n();
        let mut r = vec![S::zero(); n];
        for i in 0..n {
            if self.c[i].is_zero() {
                continue;
            }
            for j in 0..n {
                let k = b.mul[i * n + j];
                if k != NONE && !o.c[j].is_zero() {
                    r[k] = r[k].add(&self.c[i].mul(&o.c[j]));
                }
            }
        }
        Jet { c: r }
    }
    /// nilpotent part (constant coefficient removed)
    pub fn nil(&self) -> Self {
        let mut j = self.clone();
        j.c[0] = S::zero();
        j
    }
    /// sum_k g[k] * nil(self)^k  (g = Taylor coefficients of the outer function at self.c[0])
    pub fn compose(&self, g: &[S], b: &Basis) -> Self {
        let d = b.max_deg;
        assert!(g.len() > d, "need {} Taylor coefficients, got {}", d + 1, g.len());
        let x = self.nil();
        let mut r = Jet::constant(b, g[d].clone());
        for k in (0..d).rev() {
            r = r.mul(&x, b);
            r.c[0] = r.c[0].add(&g[k]);
        }
        r
    }
    pub fn recip(&self, b: &Basis) -> Self {
        // 1/(x0 + n) = sum_k (-1)^k n^k / x0^(k+1)
        let d = b.max_deg;
        let x0 = &self.c[0];
        let mut g = Vec::with_capacity(d + 1);
        let mut p = S::one().div(x0);
        for _ in 0..=d {
            g.push(p.clone());
            p = p.div(x0).neg();
        }
        self.compose(&g, b)
    }
    pub fn div(&self, o: &Self, b: &Basis) -> Self {
        self.mul(&o.recip(b), b)
    }
    pub fn powi(&self, n: i32, b: &Basis) -> Self {
        if n == 0 {
            return Jet::constant(b, S::one());
        }
        let mut base = if n < 0 { self.recip(b) } else { self.clone() };
        let mut e = n.unsigned_abs();
        let mut acc: Option<Jet<S>> = None;
        while e > 0 {
            if e & 1 == 1 {
                acc = Some(match acc {
                    None => base.clone(),
                    Some(a) => a.mul(&base, b),
                });
            }
            e >>= 1;
            if e > 0 {
                base = base.mul(&base, b);
            }
        }
        acc.unwrap()
    }
}

impl Jet<f64> {
    pub fn abs(&self) -> Self {
        Jet { c: self.c.iter().map(|a| a.abs()).collect() }
    }
    pub fn max_abs(&self) -> f64 {
        self.c.iter().fold(0.0f64, |m, a| m.max(a.abs()))
    }
}

/// Exact rational (i128 / i128, normalised, den > 0). Panics on overflow.
#[derive(Clone, Debug, PartialEq, Eq)]
pub struct Rat {
    pub n: i128,
    pub d: i128,
}

fn gcd(mut a: i128, mut b: i128) -> i128 {
    a = a.abs();
    b = b.abs();
    while b != 0 {
        let t = a % b;
        a = b;
        b = t;
    }
    a
}

impl Rat {
    pub fn new(n: i128, d: i128) -> Rat {
        assert!(d != 0, "rational with zero denominator");
        let g = gcd(n, d).max(1);
        let s = if d < 0 { -1 } else { 1 };
        Rat { n: s * n / g, d: s * d / g }
    }
    /// Some(x) if the value is a dyadic rational whose odd mantissa has at most `bits` bits
    pub fn to_float_exact(&self, bits: u32) -> Option<f64> {
        if self.n == 0 {
            return Some(0.0);
        }
        if self.d & (self.d - 1) != 0 {
            return None;
        }
        let mut m = self.n;
        let mut e = -(self.d.trailing_zeros() as i32);
        while m & 1 == 0 {
            m >>= 1;
            e += 1;
        }
        let w = 128 - m.unsigned_abs().leading_zeros();
        if w > bits || !(-100..=100).contains(&e) {
            return None;
        }
        Some(m as f64 * (2.0f64).powi(e))
    }
}

impl Sc for Rat {
    fn zero() -> Self {
        Rat { n: 0, d: 1 }
    }
    fn one() -> Self {
        Rat { n: 1, d: 1 }
    }
    fn from_f64(x: f64) -> Self {
        let dy = Dyadic::from_f64(x);
        if dy.e >= 0 {
            assert!(dy.e < 100);
            Rat::new(dy.m.checked_shl(dy.e as u32).unwrap(), 1)
        } else {
            assert!(dy.e > -120);
            Rat::new(dy.m, 1i128 << (-dy.e) as u32)
        }
    }
    fn to_f64(&self) -> f64 {
        self.n as f64 / self.d as f64
    }
    fn add(&self, o: &Self) -> Self {
        let g = gcd(self.d, o.d).max(1);
        let l = (self.d / g).checked_mul(o.d).expect("rat overflow");
        let a = self.n.checked_mul(o.d / g).expect("rat overflow");
        let b = o.n.checked_mul(self.d / g).expect("rat overflow");
        Rat::new(a.checked_add(b).expect("rat overflow"), l)
    }
    fn sub(&self, o: &Self) -> Self {
        self.add(&o.neg())
    }
    fn mul(&self, o: &Self) -> Self {
        let g1 = gcd(self.n, o.d).max(1);
        let g2 = gcd(o.n, self.d).max(1);
        Rat::new(
            (self.n / g1).checked_mul(o.n / g2).expect("rat overflow"),
            (self.d / g2).checked_mul(o.d / g1).expect("rat overflow"),
        )
    }
    fn div(&self, o: &Self) -> Self {
        assert!(o.n != 0, "rat division by zero");
        self.mul(&Rat::new(o.d, o.n))
    }
    fn neg(&self) -> Self {
        Rat { n: -self.n, d: self.d }
    }
    fn is_zero(&self) -> bool {
        self.n == 0
    }
}
