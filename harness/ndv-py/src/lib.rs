//! C17 — Python extension used by py/c17_driver.py: mounts the crate's own #[pymodule] unchanged
//! and adds *mirror* functions that run the same encoded program directly on the Rust types, so
//! that the Python driver can compare what the bindings return with what the Rust operations
//! return on the same inputs, bit for bit.

use nalgebra::{Const, DVector, Dyn, SVector};
use ndv_core::jetty::*;
use ndv_core::Shape;
use num_dual::*;
use pyo3::exceptions::PyValueError;
use pyo3::prelude::*;
use serde_json::Value;

struct ListAbsent<'a> {
    flags: &'a [bool],
    pos: usize,
    bad: bool,
}
impl<'a> AbsentChooser for ListAbsent<'a> {
    fn absent(&mut self, all_zero: bool) -> bool {
        let present = self.flags.get(self.pos).copied().unwrap_or(true);
        self.pos += 1;
        if !present && !all_zero {
            self.bad = true;
        }
        !present
    }
}

fn fnum(v: &Value, k: &str) -> f64 {
    v[k].as_f64().unwrap_or(f64::NAN)
}
fn idx(v: &Value, k: &str) -> usize {
    v[k].as_u64().unwrap_or(0) as usize
}

/// The Rust operation each Python-level operation documents.
fn eval<T: Jetty<F = f64>>(prog: &Value, inputs: &[T]) -> Result<Vec<T>, String> {
    let mut v: Vec<T> = Vec::new();
    for n in prog.as_array().ok_or("program must be a list")? {
        let op = n["op"].as_str().ok_or("node without op")?;
        let a = || v[idx(n, "a")].clone();
        let b = || v[idx(n, "b")].clone();
        // floats travel as bit patterns ("fb") so that both sides see exactly the same value
        let c = n.get("fb").and_then(|v| v.as_u64()).map(f64::from_bits).unwrap_or_else(|| fnum(n, "f"));
        let r: T = match op {
            "input" => inputs[idx(n, "i")].clone(),
            "add" => a() + b(),
            "sub" => a() - b(),
            "mul" => a() * b(),
            "div" => a() / b(),
            "addf" => a() + c,
            "subf" => a() - c,
            "mulf" => a() * c,
            "divf" => a() / c,
            "radd" => a() + c,
            "rsub" => -a() + c,
            "rmul" => a() * c,
            "rdiv" => a().recip() * c,
            "neg" => -a(),
            "pow_int" | "powi" => a().powi(n["n"].as_i64().unwrap_or(0) as i32),
            "pow_float" | "powf" => a().powf(c),
            "pow_dual" | "powd" => a().powd(b()),
            "mul_add" => a().mul_add(b(), v[idx(n, "c")].clone()),
            "sin_cos0" => a().sin_cos().0,
            "sin_cos1" => a().sin_cos().1,
            "log_base" => a().log(c),
            "recip" => a().recip(),
            "sqrt" => a().sqrt(),
            "cbrt" => a().cbrt(),
            "exp" => a().exp(),
            "exp2" => a().exp2(),
            "expm1" => a().exp_m1(),
            "log" => a().ln(),
            "log2" => a().log2(),
            "log10" => a().log10(),
            "log1p" => a().ln_1p(),
            "sin" => a().sin(),
            "cos" => a().cos(),
            "tan" => a().tan(),
            "arcsin" => a().asin(),
            "arccos" => a().acos(),
            "arctan" => a().atan(),
            "sinh" => a().sinh(),
            "cosh" => a().cosh(),
            "tanh" => a().tanh(),
            "arcsinh" => a().asinh(),
            "arccosh" => a().acosh(),
            "arctanh" => a().atanh(),
            "sph_j0" => a().sph_j0(),
            "sph_j1" => a().sph_j1(),
            "sph_j2" => a().sph_j2(),
            "from_re" => T::from(c),
            other => return Err(format!("unknown op {}", other)),
        };
        v.push(r);
    }
    Ok(v)
}

type NodeOut = (Vec<f64>, Vec<(bool, usize)>, String);

fn group_sizes(shape: &Shape, out: &mut Vec<usize>) {
    if let Shape::Level(k, inner) = shape {
        let ni = inner.nslots();
        // re first
        group_sizes(inner, out);
        let groups = k.groups();
        if groups.is_empty() {
            for _ in 1..k.slots().len() {
                group_sizes(inner, out);
            }
        } else {
            for (_, _, cnt) in groups {
                out.push(cnt * ni);
                // inner groups of present elements are not enumerated (vector classes are over f64)
            }
        }
    }
}

fn run<T: Jetty<F = f64>>(dims: (usize, usize), prog: &Value, inputs: &[(Vec<f64>, Vec<bool>)]) -> PyResult<Vec<NodeOut>> {
    let shape = T::shape(dims);
    let mut ins: Vec<T> = Vec::new();
    for (parts, flags) in inputs {
        if parts.len() != shape.nslots() {
            return Err(PyValueError::new_err(format!("input has {} parts, type needs {}", parts.len(), shape.nslots())));
        }
        let mut ch = ListAbsent { flags, pos: 0, bad: false };
        let x: T = build_with(&shape, parts, &mut ch);
        if ch.bad {
            return Err(PyValueError::new_err("absent part with non-zero values"));
        }
        ins.push(x);
    }
    let vals = eval::<T>(prog, &ins).map_err(PyValueError::new_err)?;
    let mut sizes = Vec::new();
    group_sizes(&shape, &mut sizes);
    Ok(vals
        .iter()
        .map(|x| {
            let (p, pres) = parts_presence(x, &shape);
            let pr: Vec<(bool, usize)> = pres.iter().zip(sizes.iter()).map(|(a, b)| (*a, *b)).collect();
            (p, pr, x.to_string())
        })
        .collect())
}

macro_rules! static_n {
    ($n:expr, $mac:ident, $($args:tt)*) => {
        match $n {
            1 => $mac!(1, $($args)*),
            2 => $mac!(2, $($args)*),
            3 => $mac!(3, $($args)*),
            4 => $mac!(4, $($args)*),
            5 => $mac!(5, $($args)*),
            6 => $mac!(6, $($args)*),
            7 => $mac!(7, $($args)*),
            8 => $mac!(8, $($args)*),
            9 => $mac!(9, $($args)*),
            10 => $mac!(10, $($args)*),
            _ => Err(PyValueError::new_err("static size out of range")),
        }
    };
}

/// Evaluate `program` on the Rust type behind the Python class `class` (dims for the vector
/// classes) and return, per node, (parts, presence with group sizes, to_string()).
#[pyfunction]
fn mirror_eval(class: &str, dims: (usize, usize), program: &str, inputs: Vec<(Vec<f64>, Vec<bool>)>) -> PyResult<Vec<NodeOut>> {
    let prog: Value = serde_json::from_str(program).map_err(|e| PyValueError::new_err(e.to_string()))?;
    macro_rules! dv {
        ($n:literal, $p:expr, $i:expr) => {
            run::<DualSVec64<$n>>(dims, $p, $i)
        };
    }
    macro_rules! d2v {
        ($n:literal, $p:expr, $i:expr) => {
            run::<Dual2SVec64<$n>>(dims, $p, $i)
        };
    }
    macro_rules! hdv {
        ($m:literal, $p:expr, $i:expr, $nn:expr) => {
            match $nn {
                1 => run::<HyperDualSVec64<$m, 1>>(dims, $p, $i),
                2 => run::<HyperDualSVec64<$m, 2>>(dims, $p, $i),
                3 => run::<HyperDualSVec64<$m, 3>>(dims, $p, $i),
                4 => run::<HyperDualSVec64<$m, 4>>(dims, $p, $i),
                5 => run::<HyperDualSVec64<$m, 5>>(dims, $p, $i),
                _ => Err(PyValueError::new_err("static size out of range")),
            }
        };
    }
    match class {
        "Dual64" => run::<Dual64>(dims, &prog, &inputs),
        "Dual2_64" => run::<Dual2_64>(dims, &prog, &inputs),
        "Dual3_64" => run::<Dual3_64>(dims, &prog, &inputs),
        "HyperDual64" => run::<HyperDual64>(dims, &prog, &inputs),
        "HyperHyperDual64" => run::<HyperHyperDual64>(dims, &prog, &inputs),
        "HyperDualDual64" => run::<HyperDual<Dual64, f64>>(dims, &prog, &inputs),
        "Dual2Dual64" => run::<Dual2<Dual64, f64>>(dims, &prog, &inputs),
        "Dual3Dual64" => run::<Dual3<Dual64, f64>>(dims, &prog, &inputs),
        "Dual64Dyn" => run::<DualDVec64>(dims, &prog, &inputs),
        "Dual2_64Dyn" => run::<Dual2DVec64>(dims, &prog, &inputs),
        "HyperDual64Dyn" => run::<HyperDualDVec64>(dims, &prog, &inputs),
        "DualSVec64" => static_n!(dims.0, dv, &prog, &inputs),
        "Dual2Vec64" => static_n!(dims.0, d2v, &prog, &inputs),
        "HyperDualVec64" => match dims.0 {
            1 => hdv!(1, &prog, &inputs, dims.1),
            2 => hdv!(2, &prog, &inputs, dims.1),
            3 => hdv!(3, &prog, &inputs, dims.1),
            4 => hdv!(4, &prog, &inputs, dims.1),
            5 => hdv!(5, &prog, &inputs, dims.1),
            _ => Err(PyValueError::new_err("static size out of range")),
        },
        other => Err(PyValueError::new_err(format!("unknown class {}", other))),
    }
}

fn last<T: Jetty<F = f64>>(p: &Value, x: &[T]) -> T {
    eval::<T>(p, x).expect("program").pop().expect("empty program")
}

/// Run the Rust driver `name` on the function(s) encoded by `programs` and return the results
/// flattened in the documented orientation (f; gradient; rows of the matrix ...).
#[pyfunction]
fn mirror_driver(name: &str, programs: Vec<String>, x: Vec<f64>, y: Vec<f64>, ijk: (usize, usize, usize)) -> PyResult<Vec<f64>> {
    let progs: Vec<Value> = programs.iter().map(|p| serde_json::from_str(p).map_err(|e| PyValueError::new_err(e.to_string()))).collect::<PyResult<_>>()?;
    let p = &progs[0];
    let n = x.len();
    let mut out: Vec<f64> = Vec::new();
    match name {
        "first_derivative" => {
            let (f, d) = first_derivative(|v: Dual64| last(p, &[v]), x[0]);
            out.extend([f, d]);
        }
        "second_derivative" => {
            let (f, d, d2) = second_derivative(|v: Dual2_64| last(p, &[v]), x[0]);
            out.extend([f, d, d2]);
        }
        "third_derivative" => {
            let (f, d, d2, d3) = third_derivative(|v: Dual3_64| last(p, &[v]), x[0]);
            out.extend([f, d, d2, d3]);
        }
        "second_partial_derivative" => {
            let (f, a, b, ab) = second_partial_derivative(|u: HyperDual64, v: HyperDual64| last(p, &[u, v]), x[0], y[0]);
            out.extend([f, a, b, ab]);
        }
        "third_partial_derivative" => {
            let t = third_partial_derivative(|a: HyperHyperDual64, b: HyperHyperDual64, c: HyperHyperDual64| last(p, &[a, b, c]), x[0], x[1], x[2]);
            out.extend([t.0, t.1, t.2, t.3, t.4, t.5, t.6, t.7]);
        }
        "third_partial_derivative_vec" => {
            let t = third_partial_derivative_vec(|v: &[HyperHyperDual64]| last(p, v), &x, ijk.0, ijk.1, ijk.2);
            out.extend([t.0, t.1, t.2, t.3, t.4, t.5, t.6, t.7]);
        }
        "gradient" => {
            macro_rules! g {
                ($n:literal, $p:expr) => {{
                    let (f, g) = gradient(|v: SVector<DualSVec64<$n>, $n>| last($p, v.as_slice()), SVector::<f64, $n>::from_column_slice(&x));
                    out.push(f);
                    out.extend(g.iter());
                    Ok(())
                }};
            }
            if n <= 10 && n >= 1 {
                static_n!(n, g, p)?;
            } else {
                let (f, g) = gradient(|v: DVector<DualDVec64>| last(p, v.as_slice()), DVector::from_vec(x.clone()));
                out.push(f);
                out.extend(g.iter());
            }
        }
        "hessian" => {
            macro_rules! h {
                ($n:literal, $p:expr) => {{
                    let (f, g, h) = hessian(|v: SVector<Dual2SVec64<$n>, $n>| last($p, v.as_slice()), SVector::<f64, $n>::from_column_slice(&x));
                    out.push(f);
                    out.extend(g.iter());
                    for i in 0..$n {
                        for j in 0..$n {
                            out.push(h[(i, j)]);
                        }
                    }
                    Ok(())
                }};
            }
            if n <= 10 && n >= 1 {
                static_n!(n, h, p)?;
            } else {
                let (f, g, h) = hessian(|v: DVector<Dual2DVec64>| last(p, v.as_slice()), DVector::from_vec(x.clone()));
                out.push(f);
                out.extend(g.iter());
                for i in 0..n {
                    for j in 0..n {
                        out.push(h[(i, j)]);
                    }
                }
            }
        }
        "jacobian" => {
            let m = progs.len();
            macro_rules! j {
                ($n:literal, $ps:expr) => {{
                    let (f, jac) = jacobian(
                        |v: SVector<DualSVec64<$n>, $n>| DVector::from_iterator(m, $ps.iter().map(|q| last(q, v.as_slice()))),
                        SVector::<f64, $n>::from_column_slice(&x),
                    );
                    out.extend(f.iter());
                    for i in 0..m {
                        for jx in 0..$n {
                            out.push(jac[(i, jx)]);
                        }
                    }
                    Ok(())
                }};
            }
            static_n!(n, j, &progs)?;
        }
        "partial_hessian" => {
            let (m, nn) = (x.len(), y.len());
            macro_rules! ph {
                ($m:literal, $nn:literal) => {{
                    let (f, fx, fy, fxy) = partial_hessian(
                        |a: SVector<HyperDualSVec64<$m, $nn>, $m>, b: SVector<HyperDualSVec64<$m, $nn>, $nn>| {
                            let mut all: Vec<HyperDualSVec64<$m, $nn>> = a.iter().cloned().collect();
                            all.extend(b.iter().cloned());
                            last(p, &all)
                        },
                        SVector::<f64, $m>::from_column_slice(&x),
                        SVector::<f64, $nn>::from_column_slice(&y),
                    );
                    out.push(f);
                    out.extend(fx.iter());
                    out.extend(fy.iter());
                    for i in 0..$m {
                        for j in 0..$nn {
                            out.push(fxy[(i, j)]);
                        }
                    }
                }};
            }
            macro_rules! phm {
                ($m:literal) => {
                    match nn {
                        1 => ph!($m, 1),
                        2 => ph!($m, 2),
                        3 => ph!($m, 3),
                        4 => ph!($m, 4),
                        5 => ph!($m, 5),
                        _ => unreachable!(),
                    }
                };
            }
            if (1..=5).contains(&m) && (1..=5).contains(&nn) {
                match m {
                    1 => phm!(1),
                    2 => phm!(2),
                    3 => phm!(3),
                    4 => phm!(4),
                    _ => phm!(5),
                }
            } else {
                let (f, fx, fy, fxy) = partial_hessian(
                    |a: DVector<HyperDualDVec64>, b: DVector<HyperDualDVec64>| {
                        let mut all: Vec<HyperDualDVec64> = a.iter().cloned().collect();
                        all.extend(b.iter().cloned());
                        last(p, &all)
                    },
                    DVector::from_vec(x.clone()),
                    DVector::from_vec(y.clone()),
                );
                out.push(f);
                out.extend(fx.iter());
                out.extend(fy.iter());
                for i in 0..m {
                    for j in 0..nn {
                        out.push(fxy[(i, j)]);
                    }
                }
            }
        }
        other => return Err(PyValueError::new_err(format!("unknown driver {}", other))),
    }
    let _ = (Const::<1>, Dyn(1));
    Ok(out)
}

#[pymodule]
fn ndverif(m: &Bound<'_, PyModule>) -> PyResult<()> {
    m.add_wrapped(pyo3::wrap_pymodule!(num_dual::python::num_dual))?;
    m.add_function(wrap_pyfunction!(mirror_eval, m)?)?;
    m.add_function(wrap_pyfunction!(mirror_driver, m)?)?;
    Ok(())
}
