pub mod special;

/// Process history "a 32-bit type calls everything first": state that is initialised once per
/// process by whoever comes first (a cached constant, a lazily built table, a scratch buffer) must
/// not inherit the first caller's precision or shape.  Called by the monitors before their
/// workloads start, so that every 64-bit evaluation below runs *after* a 32-bit one.
pub fn warm_up_f32() {
    use ndv_core::evidence::guarded;
    use ndv_core::funcs::{apply, c01_funcs};
    use ndv_core::Func;
    use num_dual::{Dual32, Dual3_32, DualNum, DualSVec32};
    for x0 in [0.5f32, 1.5f32] {
        let x = Dual32::new(x0, 1.0);
        let y = Dual3_32::new(x0, 1.0, 0.5, 0.25);
        let v = DualSVec32::<2>::new(x0, num_dual::Derivative::some(nalgebra::SVector::<f32, 2>::new(1.0, 2.0)));
        for f in c01_funcs().into_iter().chain([Func::SphJ0, Func::SphJ1, Func::SphJ2]) {
            let _ = guarded(|| apply::<Dual32, f32>(f, &x));
            let _ = guarded(|| apply::<Dual3_32, f32>(f, &y));
            let _ = guarded(|| apply::<DualSVec32<2>, f32>(f, &v));
        }
        let _ = guarded(|| (x.powi(3), x.powi(-2), x.powf(2.5), x.powf(3.0), x.powd(x), x.mul_add(x, x), x.sin_cos(), x.recip(), y.powi(7), y.powf(0.5), y.powd(y)));
        let _ = guarded(|| (x / x, x * x, y / y, y * y, v.clone() / v.clone(), v.clone() * v.clone()));
    }
}

/// Which family of operations a history-independence run exercises.
#[derive(Clone, Copy, PartialEq, Eq, Debug)]
pub enum Family {
    Elementary,
    Powers,
    SphericalBessel,
    CylindricalBessel,
}

/// History independence: every operation of the interface is a pure function of its operands, so
/// the same list of calls must give bit-identical results (a) in the natural order on the main
/// thread, (b) in shuffled orders on fresh threads (thread-local state starts empty and is filled
/// in a different order), and (c) on several threads at once (process-wide caches are hit
/// concurrently with different keys).  Any difference is a result that depends on what was called
/// before, by whom, or at the same time.
pub fn history_independence(fam: Family, ctx: &ndv_core::evidence::Ctx) -> ndv_core::evidence::Acc {
    use ndv_core::evidence::{guarded, Acc};
    use ndv_core::funcs::{apply, apply_bessel, c01_funcs};
    use ndv_core::{Func, Rng};
    use num_dual::{Dual2_64, Dual32, Dual3_32, Dual3_64, Dual64, DualNum, HyperDual64};
    use serde_json::json;
    type Call = (String, Box<dyn Fn() -> Vec<f64> + Send + Sync>);
    let mut calls: Vec<Call> = Vec::new();
    let args: Vec<f64> = match fam {
        Family::Elementary => vec![0.3, 0.75, 1.5, 7.0],
        Family::Powers => vec![0.3, 0.75, 1.5, 7.0],
        Family::SphericalBessel => vec![0.0, 1e-9, 0.2, 0.6, 0.99, 1.5, 12.0, -0.4],
        Family::CylindricalBessel => vec![0.0, 1e-7, 0.2, 0.45, 0.6, 3.0, 4.9, 5.5, 30.0, -0.3],
    };
    macro_rules! unary {
        ($f:expr, $x:expr) => {{
            let (f, x): (Func, f64) = ($f, $x);
            calls.push((format!("{}({}) on Dual64", f.name(), x), Box::new(move || { let r = apply::<Dual64, f64>(f, &Dual64::new(x, 1.25)); vec![r.re, r.eps] })));
            calls.push((format!("{}({}) on Dual3_64", f.name(), x), Box::new(move || { let r = apply::<Dual3_64, f64>(f, &Dual3_64::new(x, 1.25, -0.5, 0.75)); vec![r.re, r.v1, r.v2, r.v3] })));
            calls.push((format!("{}({}) on HyperDual64", f.name(), x), Box::new(move || { let r = apply::<HyperDual64, f64>(f, &HyperDual64::new(x, 1.25, -0.5, 0.75)); vec![r.re, r.eps1, r.eps2, r.eps1eps2] })));
            calls.push((format!("{}({}) on Dual32", f.name(), x), Box::new(move || { let r = apply::<Dual32, f32>(f, &Dual32::new(x as f32, 1.25)); vec![r.re as f64, r.eps as f64] })));
            calls.push((format!("{}({}) on Dual3_32", f.name(), x), Box::new(move || { let r = apply::<Dual3_32, f32>(f, &Dual3_32::new(x as f32, 1.25, -0.5, 0.75)); vec![r.re as f64, r.v1 as f64, r.v2 as f64, r.v3 as f64] })));
        }};
    }
    match fam {
        Family::Elementary => {
            for f in c01_funcs().into_iter().chain([Func::Log(2.0), Func::Log(10.0), Func::Log(0.3), Func::Log(7.5), Func::Log(std::f64::consts::E), Func::Log(1.0e6)]) {
                for x in &args {
                    // stay inside every domain: asin/acos/atanh take |x| < 1, acosh x > 1
                    let x = match f {
                        Func::Asin | Func::Acos | Func::Atanh => x / 8.0,
                        Func::Acosh => x + 1.0,
                        _ => *x,
                    };
                    unary!(f, x);
                }
            }
        }
        Family::Powers => {
            for x in &args {
                for n in [-3i32, 0, 1, 2, 3, 7, 40] {
                    unary!(Func::Powi(n), *x);
                }
                for p in [-1.5f64, 0.5, 2.0, 2.5, 3.0, 10.0] {
                    unary!(Func::Powf(p), *x);
                }
                let x = *x;
                for e in [0.5f64, 2.0, -1.25, 3.5] {
                    calls.push((format!("powd({}, {}) on Dual2_64", x, e), Box::new(move || { let r = Dual2_64::new(x, 1.0, 0.5).powd(Dual2_64::new(e, -0.75, 0.25)); vec![r.re, r.v1, r.v2] })));
                    calls.push((format!("powd({}, {}) on Dual32", x, e), Box::new(move || { let r = Dual32::new(x as f32, 1.0).powd(Dual32::new(e as f32, -0.75)); vec![r.re as f64, r.eps as f64] })));
                }
            }
        }
        Family::SphericalBessel => {
            for f in [Func::SphJ0, Func::SphJ1, Func::SphJ2] {
                for x in &args {
                    unary!(f, *x);
                }
            }
        }
        Family::CylindricalBessel => {
            for f in [Func::BesselJ0, Func::BesselJ1, Func::BesselJ2] {
                for x in &args {
                    let x = *x;
                    calls.push((format!("{}({}) on Dual64", f.name(), x), Box::new(move || { let r = apply_bessel(f, Dual64::new(x, 1.25)); vec![r.re, r.eps] })));
                    calls.push((format!("{}({}) on Dual3_64", f.name(), x), Box::new(move || { let r = apply_bessel(f, Dual3_64::new(x, 1.25, -0.5, 0.75)); vec![r.re, r.v1, r.v2, r.v3] })));
                    calls.push((format!("{}({}) on f64", f.name(), x), Box::new(move || vec![apply_bessel(f, x)])));
                }
            }
        }
    }
    let mut acc = Acc::new();
    let bits = |v: &Vec<f64>| v.iter().map(|x| x.to_bits()).collect::<Vec<_>>();
    // (a) reference: natural order, this thread
    let reference: Vec<Option<Vec<u64>>> = calls.iter().map(|(_, c)| guarded(|| c()).ok().map(|v| bits(&v))).collect();
    let ncalls = calls.len();
    let compare = |acc: &mut Acc, kind: &str, order: &[usize], got: &[Option<Vec<u64>>]| {
        for (pos, &ci) in order.iter().enumerate() {
            if got[pos] != reference[ci] {
                let prev: Vec<&str> = order[..pos].iter().rev().take(4).map(|&k| calls[k].0.as_str()).collect();
                acc.violate(
                    format!("history:{}:{:?}", kind, fam),
                    format!("{}: {} gives parts with bits {:x?} here but {:x?} in the natural order on the main thread; calls just before on this thread: {:?}", kind, calls[ci].0, got[pos], reference[ci], prev),
                    json!({"family": format!("{:?}", fam), "kind": kind, "call": calls[ci].0, "position": pos, "preceding_calls": prev}),
                );
                return;
            }
        }
    };
    // (b) shuffled orders, each on a fresh thread
    let rounds = ctx.n(24, 2000);
    for r in 0..rounds {
        let mut rng = Rng::stream(ctx.seed, 31000 + fam as u64, r);
        let mut order: Vec<usize> = (0..ncalls).collect();
        match r % 3 {
            0 => order.reverse(),
            _ => rng.shuffle(&mut order),
        }
        // a fresh thread often starts with a single function family member or a single type
        if r % 4 == 1 {
            order.truncate(ncalls / 3 + 1);
        }
        let got: Vec<Option<Vec<u64>>> = std::thread::scope(|s| s.spawn(|| order.iter().map(|&ci| guarded(|| (calls[ci].1)()).ok().map(|v| bits(&v))).collect()).join().unwrap());
        acc.observe(&format!("history|{:?}|fresh-thread-{}", fam, ["reversed", "shuffled", "shuffled"][(r % 3) as usize]), true);
        compare(&mut acc, "fresh thread, different call order", &order, &got);
    }
    // (c) eight threads at once, each in its own order, several passes
    for r in 0..ctx.n(6, 200) {
        let orders: Vec<Vec<usize>> = (0..8)
            .map(|t| {
                let mut rng = Rng::stream(ctx.seed, 32000 + fam as u64, r * 8 + t);
                let mut o: Vec<usize> = (0..ncalls).collect();
                rng.shuffle(&mut o);
                o
            })
            .collect();
        let results: Vec<Vec<Option<Vec<u64>>>> = std::thread::scope(|s| {
            let hs: Vec<_> = orders.iter().map(|o| s.spawn(|| (0..3).flat_map(|_| o.iter().map(|&ci| guarded(|| (calls[ci].1)()).ok().map(|v| bits(&v)))).collect::<Vec<_>>())).collect();
            hs.into_iter().map(|h| h.join().unwrap()).collect()
        });
        acc.observe(&format!("history|{:?}|eight-threads-at-once", fam), true);
        for (o, got) in orders.iter().zip(&results) {
            let o3: Vec<usize> = (0..3).flat_map(|_| o.iter().copied()).collect();
            compare(&mut acc, "eight threads at once", &o3, got);
        }
    }
    acc.count(&format!("history_calls[{:?}]", fam), ncalls as u64);
    acc
}
