pub mod special;

/// Process history "a 32-bit type calls everything first": state that is initialised once per
/// process by whoever comes first (a cached constant, a lazily built table, a scratch buffer) must
/// not inherit the first caller's precision or shape.  Called by the monitors before their
/// workloads start, so that every 64-bit evaluation below runs *after* a 32-bit one.
pub fn warm_up_f32() {
    use ndv_core::evidence::guarded;
    use ndv_core::funcs::{apply, c01_funcs};
    use ndv_core::Func;
    use num_dual::{Dual32, Dual3_32, DualNum, DualSVec32};
    for x0 in [0.5f32, 1.5f32] {
        let x = Dual32::new(x0, 1.0);
        let y = Dual3_32::new(x0, 1.0, 0.5, 0.25);
        let v = DualSVec32::<2>::new(x0, num_dual::Derivative::some(nalgebra::SVector::<f32, 2>::new(1.0, 2.0)));
        for f in c01_funcs().into_iter().chain([Func::SphJ0, Func::SphJ1, Func::SphJ2]) {
            let _ = guarded(|| apply::<Dual32, f32>(f, &x));
            let _ = guarded(|| apply::<Dual3_32, f32>(f, &y));
            let _ = guarded(|| apply::<DualSVec32<2>, f32>(f, &v));
        }
        let _ = guarded(|| (x.powi(3), x.powi(-2), x.powf(2.5), x.powf(3.0), x.powd(x), x.mul_add(x, x), x.sin_cos(), x.recip(), y.powi(7), y.powf(0.5), y.powd(y)));
        let _ = guarded(|| (x / x, x * x, y / y, y * y, v.clone() / v.clone(), v.clone() * v.clone()));
    }
}
