pub mod special;
