//! Shared oracle pieces for the special-function properties (C10, C14, C15): error scales of the
//! Taylor coefficients, the known-finding bands, and the slot-wise verdict.

use ndv_core::evidence::Acc;
use ndv_core::taylor::Func;
use ndv_core::Basis;
use serde_json::Value;

pub fn sph_order(f: Func) -> Option<usize> {
    match f {
        Func::SphJ0 => Some(0),
        Func::SphJ1 => Some(1),
        Func::SphJ2 => Some(2),
        _ => None,
    }
}
pub fn bessel_order(f: Func) -> Option<usize> {
    match f {
        Func::BesselJ0 => Some(0),
        Func::BesselJ1 => Some(1),
        Func::BesselJ2 => Some(2),
        _ => None,
    }
}

/// spherical Bessel: accuracy relative to the true value plus the absolute rounding level of a
/// well-conditioned evaluation (terms of size 1/max(|x|,1)); for |x| >= 1 each further derivative
/// of the closed form divides by x once more (Cauchy chain with rho = |x|)
/// (the k-th Taylor coefficient of 1/x^(n+1) carries the binomial factor C(k+n, n))
pub fn sph_tight(n: usize, x0: f64) -> impl Fn(&[f64]) -> Vec<f64> {
    move |g: &[f64]| {
        let lvl = 1.0 / x0.abs().max(1.0);
        let binom = |k: usize| -> f64 { (1..=n).map(|i| (k + i) as f64 / i as f64).product() };
        let mut m: Vec<f64> = g.iter().enumerate().map(|(k, v)| v.abs().max(lvl * binom(k))).collect();
        let rho = x0.abs().max(1.0);
        for k in 1..m.len() {
            m[k] = m[k].max(m[k - 1] / rho);
        }
        m
    }
}
/// what the closed forms can deliver for small |x|: terms of size (n+1)/|x|^n, one more power of
/// 1/|x| per derivative
pub fn sph_loose(n: usize, x0: f64) -> impl Fn(&[f64]) -> Vec<f64> {
    move |g: &[f64]| {
        let a = x0.abs().min(1.0).max(1e-300);
        g.iter().enumerate().map(|(k, v)| v.abs().max(4.0 * (n as f64 + 1.0) / a.powi((n + k) as i32))).collect()
    }
}
/// cylindrical Bessel: absolute accuracy (|J^(k)| <= 1); differentiating the rational / asymptotic
/// approximations amplifies their ripple by a constant per order
pub fn bessel_tight(amp: f64) -> impl Fn(&[f64]) -> Vec<f64> {
    move |g: &[f64]| {
        let mut fact = 1.0;
        g.iter()
            .enumerate()
            .map(|(k, v)| {
                if k > 0 {
                    fact *= k as f64;
                }
                v.abs().max(amp.powi(k as i32) / fact)
            })
            .collect()
    }
}
/// J2 = 2 J1 / x - J0 for small |x|: one power of 1/|x| per derivative on top of the division
pub fn bessel_j2_loose(x0: f64) -> impl Fn(&[f64]) -> Vec<f64> {
    move |g: &[f64]| {
        let a = x0.abs().min(1.0).max(1e-300);
        g.iter().enumerate().map(|(k, v)| v.abs().max(8.0 / a.powi(k as i32 + 1))).collect()
    }
}

pub const K1_SIG: [&str; 3] = [
    "sph_j0:small-argument-cancellation(eps<=|x|<1)",
    "sph_j1:small-argument-cancellation(eps<=|x|<1)",
    "sph_j2:small-argument-cancellation(eps<=|x|<1)",
];
pub const K2_SIG: &str = "bessel_j2:small-argument-recurrence(0<|x|<1)";

/// slot-wise verdict. `loose`: (signature of the listed finding, magnitude sums of the looser,
/// conditioning-aware bound) when the point lies in a known-finding band.
#[allow(clippy::too_many_arguments)]
pub fn judge(
    acc: &mut Acc,
    k: f64,
    u: f64,
    what: &str,
    sigkey: &str,
    tname: &str,
    b: &Basis,
    got: &[f64],
    want: &[f64],
    tight: &[f64],
    loose: Option<(&str, &[f64])>,
    floor: f64,
    case: &dyn Fn() -> Value,
) {
    let mut worst = 0.0f64;
    for s in 0..got.len() {
        let d = (got[s] - want[s]).abs();
        let tol = k * u * tight[s] + floor;
        if got[s].is_finite() && d <= tol {
            if k * u * tight[s] > 100.0 * floor && tight[s] > 0.0 {
                worst = worst.max(d / (u * tight[s]));
            }
            continue;
        }
        let mo = b.slot_mono[s];
        let descr = format!(
            "{} on {} part {} ({}): got {:e}, true value {:e}, |diff| = {:.3e}, allowed {:.3e}",
            what, tname, s, b.mono_name(mo), got[s], want[s], d, tol
        );
        if let Some((sig, l)) = loose {
            if got[s].is_finite() && d <= k * u * l[s] + floor {
                acc.violate(sig.to_string(), descr, case());
                return;
            }
        }
        acc.violate(format!("{}:{}:deg{}", sigkey, tname, b.deg[mo]), descr, case());
        return;
    }
    acc.ratio(worst, || format!("{} on {}", what, tname));
    acc.maxi(&format!("ratio[{}]", sigkey), worst);
}
