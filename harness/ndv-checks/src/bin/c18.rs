//! C18 — textual rendering shows every part faithfully.
//! Monitor: `to_string()` of every type (scalar, vector static/dynamic, nested), random finite
//! part values (distinct per storage slot, matrices not symmetric) and every presence pattern of
//! the optional parts; a recursive-descent parser written from the documented grammar must
//! consume the whole string, and every number token must parse back to exactly the stored part in
//! the stored position; absent parts must not appear.

use ndv_core::basis::{Kind, Shape};
use ndv_core::evidence::{floats, guarded, hexes, Acc, Ctx};
use ndv_core::gen::presence_key;
use ndv_core::jetty::*;
use ndv_core::zoo::*;
use ndv_core::Rng;
use serde_json::json;

struct P<'a> {
    s: &'a str,
    pos: usize,
    f32: bool,
}

impl<'a> P<'a> {
    fn rest(&self) -> &'a str {
        &self.s[self.pos..]
    }
    fn expect(&mut self, lit: &str) -> Result<(), String> {
        if self.rest().starts_with(lit) {
            self.pos += lit.len();
            Ok(())
        } else {
            Err(format!("expected '{}' at byte {} but found '{}'", lit, self.pos, self.rest().chars().take(12).collect::<String>()))
        }
    }
    fn number(&mut self) -> Result<f64, String> {
        let r = self.rest();
        let mut end = 0;
        let b = r.as_bytes();
        if end < b.len() && (b[end] == b'-' || b[end] == b'+') {
            end += 1;
        }
        if r[end..].starts_with("inf") {
            end += 3;
        } else if r[end..].starts_with("NaN") {
            end += 3;
        } else {
            let st = end;
            while end < b.len() && (b[end].is_ascii_digit() || b[end] == b'.') {
                end += 1;
            }
            if end == st {
                return Err(format!("expected a number at byte {} but found '{}'", self.pos, r.chars().take(12).collect::<String>()));
            }
            if end < b.len() && (b[end] == b'e' || b[end] == b'E') {
                let mut e2 = end + 1;
                if e2 < b.len() && (b[e2] == b'-' || b[e2] == b'+') {
                    e2 += 1;
                }
                let st2 = e2;
                while e2 < b.len() && b[e2].is_ascii_digit() {
                    e2 += 1;
                }
                if e2 > st2 {
                    end = e2;
                }
            }
        }
        let tok = &r[..end];
        self.pos += end;
        if self.f32 {
            tok.parse::<f32>().map(|v| v as f64).map_err(|e| format!("'{}' is not a float: {}", tok, e))
        } else {
            tok.parse::<f64>().map_err(|e| format!("'{}' is not a float: {}", tok, e))
        }
    }
    fn skip_box(&mut self) {
        loop {
            let r = self.rest();
            match r.chars().next() {
                Some(c) if c.is_whitespace() || "┌┐└┘│".contains(c) => self.pos += c.len_utf8(),
                _ => break,
            }
        }
    }
}

/// optional matrix part: `rows x cols` inner values followed by `symbol`, if present
fn group(p: &mut P, rows: usize, cols: usize, inner: &Shape, symbol: &str, present: bool, out: &mut Vec<f64>, pres: &mut std::slice::Iter<bool>) -> Result<(), String> {
    let ni = inner.nslots();
    if !present {
        out.extend(std::iter::repeat(0.0).take(rows * cols * ni));
        return Ok(());
    }
    p.expect(" + ")?;
    let base = out.len();
    match (rows, cols) {
        (1, 1) => value(p, inner, out, pres)?,
        (1, _) | (_, 1) => {
            p.expect("[")?;
            for k in 0..rows * cols {
                if k > 0 {
                    p.expect(", ")?;
                }
                value(p, inner, out, pres)?;
            }
            p.expect("]")?;
        }
        _ if rows * cols == 0 => {
            // an empty matrix is rendered by nalgebra as "[ ]"
            p.expect("[ ]")?;
        }
        _ => {
            if *inner != Shape::Leaf {
                return Err("matrix-shaped parts of nested element types are not covered by the grammar".into());
            }
            // nalgebra prints row by row; storage (and the canonical flattening) is column-major
            out.extend(std::iter::repeat(0.0).take(rows * cols));
            for i in 0..rows {
                for j in 0..cols {
                    p.skip_box();
                    out[base + j * rows + i] = p.number()?;
                }
            }
            p.skip_box();
        }
    }
    p.expect(symbol)
}

fn value(p: &mut P, shape: &Shape, out: &mut Vec<f64>, pres: &mut std::slice::Iter<bool>) -> Result<(), String> {
    let (k, inner) = match shape {
        Shape::Leaf => {
            out.push(p.number()?);
            return Ok(());
        }
        Shape::Level(k, inner) => (k, inner.as_ref()),
    };
    let fixed = |p: &mut P, syms: &[&str], out: &mut Vec<f64>, pres: &mut std::slice::Iter<bool>| -> Result<(), String> {
        value(p, inner, out, pres)?;
        for s in syms {
            p.expect(" + ")?;
            value(p, inner, out, pres)?;
            p.expect(s)?;
        }
        Ok(())
    };
    match k {
        Kind::Dual => fixed(p, &["ε"], out, pres),
        Kind::Dual2 => fixed(p, &["ε1", "ε1²"], out, pres),
        Kind::Dual3 => fixed(p, &["v1", "v2", "v3"], out, pres),
        Kind::HyperDual => fixed(p, &["ε1", "ε2", "ε1ε2"], out, pres),
        Kind::HyperHyperDual => fixed(p, &["ε1", "ε2", "ε3", "ε1ε2", "ε1ε3", "ε2ε3", "ε1ε2ε3"], out, pres),
        Kind::DualVec(n) => {
            value(p, inner, out, pres)?;
            let pr = *pres.next().ok_or("presence list exhausted")?;
            group(p, *n, 1, inner, "ε", pr, out, pres)
        }
        Kind::Dual2Vec(n) => {
            value(p, inner, out, pres)?;
            let pr = *pres.next().ok_or("presence list exhausted")?;
            group(p, 1, *n, inner, "ε1", pr, out, pres)?;
            let pr = *pres.next().ok_or("presence list exhausted")?;
            group(p, *n, *n, inner, "ε1²", pr, out, pres)
        }
        Kind::HyperDualVec(m, n) => {
            value(p, inner, out, pres)?;
            let pr = *pres.next().ok_or("presence list exhausted")?;
            group(p, *m, 1, inner, "ε1", pr, out, pres)?;
            let pr = *pres.next().ok_or("presence list exhausted")?;
            group(p, 1, *n, inner, "ε2", pr, out, pres)?;
            let pr = *pres.next().ok_or("presence list exhausted")?;
            group(p, *m, *n, inner, "ε1ε2", pr, out, pres)
        }
    }
}

/// does the shape contain a matrix-shaped optional part whose elements are not plain floats?
fn nested_matrix(s: &Shape) -> bool {
    match s {
        Shape::Leaf => false,
        Shape::Level(k, inner) => {
            let mat = match k {
                Kind::Dual2Vec(n) => *n >= 2,
                Kind::HyperDualVec(m, n) => *m >= 2 && *n >= 2,
                _ => false,
            };
            (mat && **inner != Shape::Leaf) || nested_matrix(inner)
        }
    }
}

fn exotic(rng: &mut Rng, f32: bool) -> f64 {
    let v = match rng.below(9) {
        0 => -0.0,
        1 => rng.int(-100000, 100000) as f64,
        2 => rng.sign() * if f32 { 1e-40 } else { 4e-310 },
        3 => rng.sign() * if f32 { 2.5e38 } else { 1e300 },
        4 => rng.sign() * if f32 { 1e-30 } else { 1e-300 },
        5 => rng.part(),
        6 => rng.sign() * rng.logu(1e-6, 1e6),
        _ => loop {
            let v = if f32 { f32::from_bits(rng.next_u64() as u32) as f64 } else { f64::from_bits(rng.next_u64()) };
            if v.is_finite() {
                break v;
            }
        },
    };
    if f32 {
        v as f32 as f64
    } else {
        v
    }
}

fn check_type<T: Jetty>(tname: &str, ctx: &Ctx, shard: usize, nshards: usize, tindex: u64) -> Acc {
    let mut acc = Acc::new();
    for ci in 0..ctx.n(2000, 1500000) {
        if ci % nshards as u64 != shard as u64 {
            continue;
        }
        let mut rng = Rng::stream(ctx.seed, 1800 + tindex, ci);
        let mut shape = T::shape((rng.below(5), rng.below(4)));
        if nested_matrix(&shape) {
            // matrix-shaped parts of nested element types are not covered by the grammar
            shape = T::shape((rng.below(5), rng.below(2)));
            if nested_matrix(&shape) {
                continue;
            }
        }
        // long dynamically sized parts (more than 1000 entries): nothing may be elided
        if ci % 1000 == 7 && ci < 60_000 {
            let long = if rng.bool() { T::shape((1001 + rng.below(700), 1)) } else { T::shape((1, 1001 + rng.below(700))) };
            if long.nslots() > 1000 && long.nslots() < 6000 && !nested_matrix(&long) {
                shape = long;
            }
        }
        let n = shape.nslots();
        // distinct value per storage slot (so matrices are not symmetric); some whole groups zero
        let mut slots: Vec<f64> = (0..n).map(|_| exotic(&mut rng, T::IS_F32)).collect();
        if rng.chance(0.4) {
            // zero a random tail / middle block so that optional parts can be absent
            let a = 1 + rng.below(n.max(2) - 1);
            let b2 = a + rng.below(n - a + 1);
            for v in slots[a.min(n)..b2.min(n)].iter_mut() {
                *v = 0.0;
            }
        }
        if rng.chance(0.15) {
            for v in slots.iter_mut().skip(1) {
                *v = 0.0;
            }
        }
        let mask = rng.next_u64();
        let x: T = build_with(&shape, &slots, &mut MaskAbsent::new(mask));
        let (want, presence) = parts_presence(&x, &shape);
        let case = || json!({"type": tname, "shape": shape.name(), "parts": floats(&slots), "parts_hex": hexes(&slots), "absent_mask": mask});
        if n > 1000 {
            acc.observe(&format!("{}|long({})|{}", tname, if n > 1500 { ">1500" } else { "1001..1500" }, if presence.iter().all(|p| *p) { "all-present" } else { "some-absent" }), true);
        } else {
            acc.observe(&format!("{}|{}|{}", tname, shape.name(), presence_key(&presence)), true);
        }
        let text = match guarded(|| x.to_string()) {
            Ok(t) => t,
            Err(m) => {
                acc.violate(format!("panic:{}", tname), format!("to_string on {} panicked: {}", tname, m), case());
                continue;
            }
        };
        // a rendering into a writer that gives up half-way must not leave anything behind that
        // shows up in the next rendering (on this thread or elsewhere)
        if ci % 3 == 0 && text.len() > 2 {
            struct Bounded(usize);
            impl std::fmt::Write for Bounded {
                fn write_str(&mut self, s: &str) -> std::fmt::Result {
                    if s.len() > self.0 {
                        self.0 = 0;
                        Err(std::fmt::Error)
                    } else {
                        self.0 -= s.len();
                        Ok(())
                    }
                }
            }
            use std::fmt::Write as _;
            let cut = 1 + rng.below(text.len() - 1);
            let mut w = Bounded(cut);
            let failed = write!(w, "{}", x).is_err();
            acc.observe(&format!("after-failed-write|{}", tname), true);
            let again = x.to_string();
            if again != text {
                acc.violate(format!("after-failed-write:{}", tname), format!("rendering {} again after a write that failed after {} bytes (failed: {}) gives {:?} instead of {:?}", tname, cut, failed, again, text), case());
            }
        }
        let via_format = format!("{}", x);
        if via_format != text {
            acc.violate(format!("format-vs-to_string:{}", tname), format!("format!(\"{{}}\") and to_string differ on {}", tname), case());
        }
        let mut p = P { s: &text, pos: 0, f32: T::IS_F32 };
        let mut got = Vec::with_capacity(n);
        let mut it = presence.iter();
        let res = value(&mut p, &shape, &mut got, &mut it).and_then(|_| if p.pos == text.len() { Ok(()) } else { Err(format!("trailing text '{}'", p.rest().chars().take(20).collect::<String>())) });
        match res {
            Err(e) => acc.violate(format!("grammar:{}", tname), format!("rendering {:?} of {} (presence {:?}) does not follow the documented layout: {}", text, tname, presence, e), case()),
            Ok(()) => {
                if got.len() != want.len() || got.iter().zip(&want).any(|(g, w)| g.to_bits() != w.to_bits()) {
                    let idx = got.iter().zip(&want).position(|(g, w)| g.to_bits() != w.to_bits());
                    acc.violate(format!("values:{}", tname), format!("rendering {:?} of {}: numbers read back {:?} but the stored parts are {:?} (first difference at part {:?})", text, tname, got, want, idx), case());
                }
            }
        }
        if ci < 2 && tindex % 6 == 1 {
            acc.sample(|| json!({"type": tname, "shape": shape.name(), "presence": presence, "text": text}));
        }
    }
    acc
}

fn main() {
    let ctx = Ctx::from_args("C18");
    let acc = ctx.parallel(|shard, nshards| {
        let mut acc = Acc::new();
        let mut t = 0u64;
        macro_rules! go {
            ($ty:ty, $name:expr) => {
                t += 1;
                acc.merge(check_type::<$ty>($name, &ctx, shard, nshards, t));
            };
        }
        ndv_core::zoo_scalar64!(go);
        ndv_core::zoo_scalar32!(go);
        ndv_core::zoo_svec64!(go);
        ndv_core::zoo_svec32!(go);
        ndv_core::zoo_dvec!(go);
        go!(ndv_core::zoo::DD64, "Dual<Dual64>");
        go!(ndv_core::zoo::DDD64, "Dual<Dual<Dual64>>");
        go!(ndv_core::zoo::D2D64, "Dual2<Dual64>");
        go!(ndv_core::zoo::DD2_64, "Dual<Dual2_64>");
        go!(ndv_core::zoo::D2D2_64, "Dual2<Dual2_64>");
        go!(ndv_core::zoo::D3D64, "Dual3<Dual64>");
        go!(ndv_core::zoo::HDD64, "HyperDual<Dual64>");
        go!(ndv_core::zoo::HHDD64, "HyperHyperDual<Dual64>");
        go!(ndv_core::zoo::DHD64, "Dual<HyperDual64>");
        go!(ndv_core::zoo::DDV2_64, "Dual<DualSVec64<2>>");
        go!(ndv_core::zoo::DVD2_64, "DualVec<Dual64,2>");
        go!(ndv_core::zoo::DVDD_64, "DualVec<Dual64,Dyn>");
        go!(Dual2<DualSVec64<3>, f64>, "Dual2<DualSVec64<3>>");
        go!(HyperDualSVec64<2, 2>, "HyperDualSVec64<2,2>");
        go!(HyperDualSVec64<3, 3>, "HyperDualSVec64<3,3>");
        go!(Dual2SVec64<4>, "Dual2SVec64<4>");
        // nested element types under the vector types (vector- and scalar-shaped parts only)
        go!(HyperDualVec<Dual64, f64, Const<2>, Const<1>>, "HyperDualVec<Dual64,2,1>");
        go!(HyperDualVec<Dual2_64, f64, Const<1>, Const<3>>, "HyperDualVec<Dual2_64,1,3>");
        go!(HyperDualVec<Dual64, f64, Dyn, Dyn>, "HyperDualVec<Dual64,Dyn,Dyn>");
        go!(Dual2Vec<Dual64, f64, Const<1>>, "Dual2Vec<Dual64,1>");
        go!(DualVec<HyperDual64, f64, Const<3>>, "DualVec<HyperDual64,3>");
        go!(DualVec<DualSVec64<2>, f64, Dyn>, "DualVec<DualSVec64<2>,Dyn>");
        let _ = t;
        acc
    });
    let types: std::collections::BTreeSet<String> = acc.classes.keys().map(|k| k.split('|').next().unwrap().to_string()).collect();
    let mut extra = serde_json::Map::new();
    extra.insert("types_observed".into(), json!(types));
    let required = vec![
        ("at least 50 types observed".to_string(), types.len() >= 50),
        ("dynamically sized parts with more than 1000 entries observed on at least 3 types".to_string(), acc.classes.keys().filter(|k| k.contains("|long(")).filter_map(|k| k.split('|').next()).collect::<std::collections::BTreeSet<_>>().len() >= 3),
    ];
    ctx.finish(
        acc,
        "class = (type, shape incl. run-time dimensions 0..4, presence pattern of the optional parts); every class is non-trivial: every storage slot carries its own finite value (negative, -0.0, subnormal, 1e+-300, integers, random bits), matrices are not symmetric, optional all-zero parts are absent according to a random mask.",
        &["grammar per type as documented: real part, then every present part followed by its symbol (ε; ε1, ε1²; v1, v2, v3; ε1, ε2, ε1ε2; ε1..ε3, ε1ε2, ε1ε3, ε2ε3, ε1ε2ε3), vectors as [a, b, ...], 1x1 parts as scalars, matrices in nalgebra's box layout (row by row)", "matrix-shaped parts of nested element types are not driven (their elements contain spaces and the box layout is not tokenisable); Python repr is covered through C17"],
        extra,
        &required,
    );
}
