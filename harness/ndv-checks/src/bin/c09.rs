//! C09 — power functions are correct for every exponent.
//! Monitor: powi / powf / powd on every type over stratified exponent classes (all small integers,
//! powers of two and their neighbours, the i32 coefficient-overflow frontiers, up to 2^30; special
//! real exponents 0, 1, 2 and their floating-point neighbours, negative, fractional, huge, tiny;
//! dual exponents incl. zero real part) against generalized-binomial Taylor coefficients, plus a
//! cross-agreement monitor between the three power functions, repeated multiplication/division
//! and exp(n ln x). Built with overflow checks on (panics inside the crate are violations); the
//! same binary built with wrapping arithmetic is run as a companion pass by bin/check_c09.

use ndv_core::evidence::{floats, guarded, Acc, Ctx};
use ndv_core::gen::{gen_slots, presence_key, STYLES};
use ndv_core::jetty::*;
use ndv_core::model::Jet;
use ndv_core::taylor::Func;
use ndv_core::track::Tr;
use ndv_core::zoo::*;
use ndv_core::{Basis, Rng};
use serde_json::json;

const K: f64 = 32.0;

fn powi_classes(f32: bool) -> Vec<(&'static str, Box<dyn Fn(&mut Rng) -> i32>)> {
    let cap: i32 = if f32 { 1 << 14 } else { 1 << 30 };
    vec![
        ("small", Box::new(|r| r.int(-64, 64) as i32)),
        ("special-0-1-2-3", Box::new(|r| *r.choose(&[0, 1, 2, 3, -1, -2, -3]))),
        ("pow2", Box::new(move |r| {
            let k = r.int(1, if f32 { 14 } else { 30 }) as i32;
            let d = *r.choose(&[-1, 0, 1]);
            let s = if r.bool() { 1 } else { -1 };
            s * ((1i32 << k) + d).clamp(-cap, cap)
        })),
        ("frontier-1292", Box::new(|r| r.sign() as i32 * r.int(1288, 1296) as i32)),
        ("frontier-46342", Box::new(move |r| {
            if f32 {
                r.sign() as i32 * r.int(2040, 2060) as i32
            } else {
                r.sign() as i32 * r.int(46338, 46346) as i32
            }
        })),
        ("random-large", Box::new(move |r| r.sign() as i32 * (r.logu(65.0, cap as f64) as i32))),
        // exponents up to 2^30 also for f32 types: only usable with bases +-1 (see base_for)
        ("unit-base-huge", Box::new(|r| r.sign() as i32 * (r.logu(65.0, (1u64 << 30) as f64) as i32 | (r.below(2) as i32)))),
    ]
}

fn powf_classes() -> Vec<(&'static str, Box<dyn Fn(&mut Rng, bool) -> f64>)> {
    fn near(c: f64, r: &mut Rng, f32: bool) -> f64 {
        let k = *r.choose(&[-3i64, -2, -1, 0, 1, 2, 3]);
        if f32 {
            f32::from_bits(((c as f32).to_bits() as i64 + k) as u32) as f64
        } else {
            f64::from_bits((c.to_bits() as i64 + k) as u64)
        }
    }
    vec![
        ("zero", Box::new(|r, _| if r.bool() { 0.0 } else { -0.0 })),
        ("near-1", Box::new(|r, f| near(1.0, r, f))),
        ("near-2", Box::new(|r, f| near(2.0, r, f))),
        ("near-3-4", Box::new(|r, f| near(*r.choose(&[3.0, 4.0]), r, f))),
        // not within rounding of the special exponents, but close: 1, 2, 3 +- 10^-k
        ("close-to-1-2-3", Box::new(|r, f| *r.choose(&[1.0, 2.0, 2.0, 3.0]) + r.sign() * (10.0f64).powi(-(r.int(2, if f { 6 } else { 13 }) as i32)))),
        ("negative", Box::new(|r, _| -r.logu(0.1, 8.0))),
        ("fraction", Box::new(|r, _| *r.choose(&[0.5, -0.5, 1.0 / 3.0, 1.5, 2.5, -1.0, 0.25]))),
        ("large", Box::new(|r, _| r.sign() * r.logu(50.0, 300.0))),
        ("tiny", Box::new(|r, f| r.sign() * if f { r.logu(1e-30, 1e-10) } else { r.logu(1e-300, 1e-10) })),
        ("random", Box::new(|r, _| r.sign() * r.logu(0.01, 20.0))),
        // integer-valued exponents far beyond the i32 range (every float >= 2^52 is integer-valued)
        ("huge-integer-valued", Box::new(|r, f| {
            let p: f64 = *r.choose(&[2147483648.0, 2147483653.0, -2147483655.0, 4294967296.0, 1099511627777.0, -8796093022208.0, 4503599627370496.0, 1e15, 9.007199254740992e15, 1e18]);
            r.sign() * if f { p.abs().min(8.0e9) } else { p.abs() }
        })),
    ]
}

/// base with |n ln|x|| <= budget
fn base_for(rng: &mut Rng, n: f64, allow_neg: bool, f32: bool) -> f64 {
    let budget = if f32 { 10.0 } else { 40.0 };
    let lmax = (budget / n.abs().max(1.0)).min(2.5);
    let l = rng.range(-lmax, lmax);
    let mut x = l.exp();
    if x < 0.05 {
        x = 0.05 + rng.f01();
    }
    if allow_neg && rng.chance(0.35) {
        x = -x;
    }
    if f32 {
        x as f32 as f64
    } else {
        x
    }
}

#[allow(clippy::too_many_arguments)]
fn judge<T: Jetty>(acc: &mut Acc, what: &str, sigkey: &str, tname: &str, class: &str, b: &Basis, got: &Result<T, String>, shape: &ndv_core::Shape, m: &Tr, case: impl Fn() -> serde_json::Value) {
    let u = unit_roundoff::<T>();
    acc.observe(class, true);
    let g = match got {
        Ok(g) => parts(g, shape),
        Err(msg) => {
            acc.violate(format!("{}:{}:panic", sigkey, tname), format!("{} on {} panicked: {}", what, tname, msg), case());
            return;
        }
    };
    let (want, mag) = m.slots(b);
    let huge = if T::IS_F32 { 1e32 } else { 1e290 };
    if !m.all_finite() || want.iter().any(|w| w.abs() > huge) || mag.iter().any(|w| *w > huge) {
        acc.count("cases_skipped_out_of_float_range", 1);
        return;
    }
    let mut worst = 0.0f64;
    for s in 0..g.len() {
        let tol = K * u * mag[s];
        let d = (g[s] - want[s]).abs();
        if !(g[s].is_finite() && d <= tol) {
            let mo = b.slot_mono[s];
            acc.violate(
                format!("{}:{}:deg{}", sigkey, tname, b.deg[mo]),
                format!("{} on {} part {} ({}): got {:e}, model {:e}, |diff|/(u*sum|terms|) = {:.3e} (allowed {})", what, tname, s, b.mono_name(mo), g[s], want[s], if mag[s] > 0.0 { d / (u * mag[s]) } else { f64::INFINITY }, K),
                case(),
            );
            return;
        }
        if mag[s] > 0.0 {
            worst = worst.max(d / (u * mag[s]));
        }
    }
    acc.ratio(worst, || format!("{} on {}", what, tname));
    acc.maxi(&format!("ratio[{}]", sigkey), worst);
}

fn check_type<T: Jetty>(tname: &str, ctx: &Ctx, shard: usize, nshards: usize, tindex: u64) -> Acc {
    let mut acc = Acc::new();
    let u = unit_roundoff::<T>();
    ndv_core::track::set_u(u);
    let per = ctx.n(300, 100000);
    let mut idx = 0u64;
    // ---------------- powi
    for (ci, (cname, cgen)) in powi_classes(T::IS_F32).iter().enumerate() {
        for rep in 0..per {
            idx += 1;
            if idx % nshards as u64 != shard as u64 {
                continue;
            }
            let mut rng = Rng::stream(ctx.seed, 900 + tindex * 40 + ci as u64, rep);
            let n = cgen(&mut rng);
            let shape = T::shape((1 + rng.below(3), 1 + rng.below(2)));
            let b = Basis::new(&shape);
            let mut x0 = base_for(&mut rng, n as f64, true, T::IS_F32);
            let style = (rep as usize) % STYLES.len();
            let mut slots = gen_slots(&mut rng, &b, x0, style, T::IS_F32);
            if *cname == "unit-base-huge" {
                // (+-1)^n: parity of huge exponents; derivative parts kept small so that n^3 * parts^3 stays in range
                x0 = rng.sign();
                slots[0] = x0;
                let lim = if T::IS_F32 { 1e-3 } else { 1.0 };
                for v in slots.iter_mut().skip(1) {
                    *v = ((*v) * lim / 9.0) as f32 as f64;
                }
            }
            let mask = rng.next_u64();
            let x: T = build_with(&shape, &slots, &mut MaskAbsent::new(mask));
            let (_, pres) = parts_presence(&x, &shape);
            let got = guarded(|| x.powi(n));
            if let Ok(g) = &got {
                ndv_core::evlog::log_unary("C09", tname, Func::Powi(n), &b, &slots, &parts(g, &shape), T::IS_F32);
            }
            let xin = Tr::exact(Jet::from_slots(&b, &slots), &b);
            let m = xin.func(Func::Powi(n), &b);
            let class = format!("powi|{}|{}|{}|{}|{}", tname, cname, if x0 < 0.0 { "neg-base" } else { "pos-base" }, if n < 0 { "n<0" } else { "n>=0" }, presence_key(&pres));
            let case = || json!({"type": tname, "shape": shape.name(), "op": "powi", "n": n, "x_slots": floats(&slots), "absent_mask": mask});
            judge::<T>(&mut acc, &format!("powi({})", n), &format!("powi[{}]", cname), tname, &class, &b, &got, &shape, &m, case);
            // cross agreement for small exponents: repeated multiplication / division
            if n.abs() <= 16 && n != 0 {
                if let Ok(g) = &got {
                    let mut r = x.clone();
                    for _ in 1..n.abs() {
                        r = r.rr_mul(&x);
                    }
                    if n < 0 {
                        r = r.recip();
                    }
                    let (gp, rp) = (parts(g, &shape), parts(&r, &shape));
                    let (_, mag) = m.slots(&b);
                    acc.observe(&format!("powi-vs-repeated-mul|{}", tname), true);
                    for s in 0..gp.len() {
                        // both are within their bounds of the truth; the product chain rounds ~|n| times per part
                        let tol = 2.0 * K * u * mag[s] * (1.0 + n.abs() as f64);
                        if mag[s].is_finite() && !((gp[s] - rp[s]).abs() <= tol) {
                            acc.violate(format!("powi-vs-mul:{}", tname), format!("powi({}) on {} part {}: {:e} but repeated multiplication gives {:e}", n, tname, s, gp[s], rp[s]), case());
                            break;
                        }
                    }
                }
            }
            // powi(n) vs powf(n) vs powd(n) vs exp(n ln x) on positive bases
            if x0 > 0.0 && n.abs() <= (1 << 20) {
                if let Ok(g) = &got {
                    let nf = f_of::<T>(n as f64);
                    let alts: Vec<(&str, Result<T, String>)> = vec![
                        ("powf", guarded(|| x.powf(nf))),
                        ("powd", guarded(|| x.powd(T::from(nf)))),
                        ("exp(n ln x)", guarded(|| (x.ln() * nf).exp())),
                    ];
                    let (_, mag_i) = m.slots(&b);
                    // each alternative route is bounded by its own tracked model
                    let (_, mag_f) = xin.func(Func::Powf(n as f64), &b).slots(&b);
                    let (_, mag_e) = xin.func(Func::Ln, &b).scale(n as f64).func(Func::Exp, &b).slots(&b);
                    let gp = parts(g, &shape);
                    for (an, ar) in alts {
                        acc.observe(&format!("powi-vs-{}|{}", an, tname), true);
                        match ar {
                            Ok(a) => {
                                let ap = parts(&a, &shape);
                                for s in 0..gp.len() {
                                    let ma = if an == "powf" { mag_f[s] } else { mag_e[s] };
                                    let tol = K * u * (mag_i[s] + ma);
                                    if tol.is_finite() && tol < 1e290 && !((gp[s] - ap[s]).abs() <= tol) {
                                        acc.violate(format!("powi-vs-{}:{}", an, tname), format!("powi({}) on {} part {}: {:e} but {} gives {:e} (allowed {:.3e})", n, tname, s, gp[s], an, ap[s], tol), case());
                                        break;
                                    }
                                }
                            }
                            Err(msg) => acc.violate(format!("{}:{}:panic", an, tname), format!("{} with n={} on {} panicked: {}", an, n, tname, msg), case()),
                        }
                    }
                }
            }
            if rep == 0 && ci == 5 && tindex % 9 == 0 {
                if let Ok(g) = &got {
                    acc.sample(|| json!({"type": tname, "op": format!("powi({})", n), "x_slots": floats(&slots), "result": floats(&parts(g, &shape))}));
                }
            }
        }
    }
    // ---------------- powf
    for (ci, (cname, cgen)) in powf_classes().iter().enumerate() {
        for rep in 0..per {
            idx += 1;
            if idx % nshards as u64 != shard as u64 {
                continue;
            }
            let mut rng = Rng::stream(ctx.seed, 920 + tindex * 40 + ci as u64, rep);
            let mut p = cgen(&mut rng, T::IS_F32);
            if T::IS_F32 {
                p = p as f32 as f64;
            }
            let shape = T::shape((1 + rng.below(3), 1 + rng.below(2)));
            let b = Basis::new(&shape);
            let mut x0 = base_for(&mut rng, p, false, T::IS_F32);
            if cname.starts_with("near") || cname.starts_with("close") {
                // the crate treats |n-2| < eps as n = 2: keep |ln x| small so the two readings agree within the bound
                x0 = rng.range(0.3, 3.0);
                if T::IS_F32 {
                    x0 = x0 as f32 as f64;
                }
            }
            let style = (rep as usize) % STYLES.len();
            let mut slots = gen_slots(&mut rng, &b, x0, style, T::IS_F32);
            if *cname == "huge-integer-valued" {
                // base 1 or a floating-point neighbour of 1 with |n ln x| <= ~8; tiny parts so that
                // n^k * parts^k stays inside the float range
                let ulp = if T::IS_F32 { f32::EPSILON as f64 } else { f64::EPSILON };
                let kmax = (8.0 / (p.abs() * ulp)).floor().min(4.0);
                x0 = 1.0 + ulp * (rng.int(-(kmax as i64), kmax as i64) as f64);
                slots[0] = x0;
                let lim = if T::IS_F32 { 1e-3 } else { 1.0 } / p.abs();
                for v in slots.iter_mut().skip(1) {
                    *v = if T::IS_F32 { ((*v) * lim) as f32 as f64 } else { (*v) * lim };
                }
            }
            let mask = rng.next_u64();
            let x: T = build_with(&shape, &slots, &mut MaskAbsent::new(mask));
            let pf = f_of::<T>(p);
            let got = guarded(|| x.powf(pf));
            if let Ok(g) = &got {
                ndv_core::evlog::log_unary("C09", tname, Func::Powf(p), &b, &slots, &parts(g, &shape), T::IS_F32);
            }
            let xin = Tr::exact(Jet::from_slots(&b, &slots), &b);
            let m = xin.func(Func::Powf(p), &b);
            let class = format!("powf|{}|{}|{}", tname, cname, STYLES[style]);
            let case = || json!({"type": tname, "shape": shape.name(), "op": "powf", "n": p, "n_hex": ndv_core::hex(p), "x_slots": floats(&slots), "absent_mask": mask});
            judge::<T>(&mut acc, &format!("powf({:e})", p), &format!("powf[{}]", cname), tname, &class, &b, &got, &shape, &m, case);
            // sqrt / cbrt / recip against the matching power
            if ci == 5 {
                let pairs: Vec<(&str, f64, Result<T, String>)> = vec![
                    ("sqrt", 0.5, guarded(|| x.sqrt())),
                    ("recip", -1.0, guarded(|| x.recip())),
                ];
                for (nm, pp, r) in pairs {
                    if let (Ok(r), Ok(pw)) = (r, guarded(|| x.powf(f_of::<T>(pp)))) {
                        let mm = xin.func(Func::Powf(pp), &b);
                        let (_, mag) = mm.slots(&b);
                        let (rp, pwp) = (parts(&r, &shape), parts(&pw, &shape));
                        acc.observe(&format!("{}-vs-powf|{}", nm, tname), true);
                        for s in 0..rp.len() {
                            if mag[s].is_finite() && !((rp[s] - pwp[s]).abs() <= 2.0 * K * u * mag[s]) {
                                acc.violate(format!("{}-vs-powf:{}", nm, tname), format!("{} on {} part {}: {:e} but powf({}) gives {:e}", nm, tname, s, rp[s], pp, pwp[s]), json!({"type": tname, "x_slots": floats(&slots)}));
                                break;
                            }
                        }
                    }
                }
            }
        }
    }
    // ---------------- powd: dual exponents with arbitrary parts
    for rep in 0..per * 3 {
        idx += 1;
        if idx % nshards as u64 != shard as u64 {
            continue;
        }
        let mut rng = Rng::stream(ctx.seed, 960 + tindex * 40, rep);
        let shape = T::shape((1 + rng.below(3), 1 + rng.below(2)));
        let b = Basis::new(&shape);
        let (ename, e0) = match rep % 6 {
            0 => ("zero-real", 0.0),
            1 => ("one", 1.0),
            2 => ("two", 2.0),
            3 => ("negative", -rng.logu(0.1, 6.0)),
            4 => ("fraction", *rng.choose(&[0.5, 1.5, 1.0 / 3.0, 2.5])),
            _ => ("random", rng.sign() * rng.logu(0.05, 8.0)),
        };
        let e0 = e0 as f32 as f64;
        let mut x0 = base_for(&mut rng, e0.abs().max(1.0) * 3.0, false, T::IS_F32);
        // one case in four: the base is exactly a "special" constant (e, 2, 10, 1/2, 1) but still a
        // variable with its own derivative parts
        let special_base = rep % 4 == 3;
        if special_base {
            let c = *rng.choose(&[std::f64::consts::E, 2.0, 10.0, 0.5, 1.0]);
            x0 = if T::IS_F32 { c as f32 as f64 } else { c };
        }
        let ename = if special_base { format!("{}-special-base", ename) } else { ename.to_string() };
        let ename = ename.as_str();
        let style = (rep as usize / 6) % STYLES.len();
        let xs = gen_slots(&mut rng, &b, x0, style, T::IS_F32);
        let es = gen_slots(&mut rng, &b, e0, (style + 1) % STYLES.len(), T::IS_F32);
        let (mx, me) = (rng.next_u64(), rng.next_u64());
        let x: T = build_with(&shape, &xs, &mut MaskAbsent::new(mx));
        let e: T = build_with(&shape, &es, &mut MaskAbsent::new(me));
        let got = guarded(|| x.powd(e.clone()));
        let tx = Tr::exact(Jet::from_slots(&b, &xs), &b);
        let te = Tr::exact(Jet::from_slots(&b, &es), &b);
        let m = tx.func(Func::Ln, &b).mul(&te, &b).func(Func::Exp, &b);
        let class = format!("powd|{}|{}|{}", tname, ename, STYLES[style]);
        let case = || json!({"type": tname, "shape": shape.name(), "op": "powd", "x_slots": floats(&xs), "exponent_slots": floats(&es), "absent_masks": [mx, me]});
        judge::<T>(&mut acc, "powd", &format!("powd[{}]", ename), tname, &class, &b, &got, &shape, &m, case);
        // constant exponent: powd(x, const n) must agree with powf(x, n)
        if rep % 6 >= 3 {
            let ec = T::from(f_of::<T>(e0));
            if let (Ok(a), Ok(bb)) = (guarded(|| x.powd(ec)), guarded(|| x.powf(f_of::<T>(e0)))) {
                let (_, mag_f) = tx.func(Func::Powf(e0), &b).slots(&b);
                let (_, mag_e) = tx.func(Func::Ln, &b).scale(e0).func(Func::Exp, &b).slots(&b);
                let (ap, bp) = (parts(&a, &shape), parts(&bb, &shape));
                acc.observe(&format!("powd-vs-powf|{}", tname), true);
                for s in 0..ap.len() {
                    let tol = K * u * (mag_f[s] + mag_e[s]);
                    if tol.is_finite() && !((ap[s] - bp[s]).abs() <= tol) {
                        acc.violate(format!("powd-vs-powf:{}", tname), format!("powd(x, {}) on {} part {}: {:e} but powf gives {:e}", e0, tname, s, ap[s], bp[s]), case());
                        break;
                    }
                }
            }
        }
    }
    acc
}

fn main() {
    let ctx = Ctx::from_args("C09");
    ndv_checks::warm_up_f32();
    let mut acc = ctx.parallel(|shard, nshards| {
        let mut acc = Acc::new();
        let mut t = 0u64;
        macro_rules! go {
            ($ty:ty, $name:expr) => {
                t += 1;
                acc.merge(check_type::<$ty>($name, &ctx, shard, nshards, t));
            };
        }
        ndv_core::zoo_all!(go);
        go!(f64, "f64");
        go!(f32, "f32");
        let _ = t;
        acc
    });
    // results must not depend on what was called before, on which thread, or at the same time
    acc.merge(ndv_checks::history_independence(ndv_checks::Family::Powers, &ctx));
    let classes: std::collections::BTreeSet<String> = acc.classes.keys().filter_map(|k| { let mut it = k.split('|'); let a = it.next()?; let _t = it.next()?; let c = it.next()?; Some(format!("{}:{}", a, c)) }).collect();
    let mut extra = serde_json::Map::new();
    extra.insert("exponent_classes_observed".into(), json!(classes));
    extra.insert("overflow_checks".into(), json!(cfg!(debug_assertions)));
    extra.insert("K".into(), json!(K));
    let required = vec![(format!("all exponent classes observed (seen {})", classes.len()), classes.len() >= 24)];
    ctx.finish(
        acc,
        "class = (power function, type, exponent class, base sign / exponent sign or part style, presence pattern); every class is non-trivial (operands carry independent non-unit parts). Exponent classes: powi: every n in [-64,64], 0..3, +-2^k and +-(2^k+-1) up to 2^30, the i32 overflow frontiers 1288..1296 and 46338..46346, log-uniform up to 2^30 (2^14 for f32); powf: +-0, 1/2/3/4 and +-3 ulp neighbours, negative, fractions, +-50..300, tiny, random; powd: dual exponents with zero / one / two / negative / fractional / random real part and arbitrary parts. Bases keep |n ln|x|| <= 40 (10 for f32), negative bases for integer exponents.",
        &["model: generalized binomial recurrences g_k = g_(k-1) (n-k+1)/(k x0) seeded with the libm power; powi charged ~|n|/8 extra units for repeated squaring (inherent to float powi)", "this binary is built with overflow checks on: an arithmetic-overflow panic inside the crate is a violation; bin/check_c09 also runs the wrapping build (companion_pass)"],
        extra,
        &required,
    );
}
