//! C13 — subset/superset conversions are lossless, coherent and memory-safe (behavioural part).
//! Monitor: for every convertible type pair (narrow, wide), static dimensions 0..6 and dynamic
//! dimensions 0..6, present and absent parts: widening preserves every part and presence;
//! narrowing back is the identity; membership <=> checked narrowing succeeds; unchecked / checked
//! narrowing round every part; float lifting / extraction; nalgebra convert / try_convert /
//! convert_ref / cast on containers. The memory clause is decided by the Miri and valgrind lanes
//! that bin/check_c13 runs on harness/ndv-miri; their summaries are embedded in the evidence.

use nalgebra::{DMatrix, DVector, SMatrix};
use ndv_core::evidence::{floats, guarded, Acc, Ctx};
use ndv_core::gen::{gen_slots, presence_key, STYLES};
use ndv_core::jetty::*;
use ndv_core::zoo::*;
use ndv_core::{Basis, Rng};
use serde_json::json;
use simba::scalar::{SubsetOf, SupersetOf};

fn eqv(a: &[f64], b: &[f64]) -> bool {
    a.len() == b.len() && a.iter().zip(b).all(|(p, q)| p.to_bits() == q.to_bits() || (p == q))
}

fn pair<A, B>(aname: &str, bname: &str, ctx: &Ctx, shard: usize, nshards: usize, tindex: u64) -> Acc
where
    A: Jetty + SubsetOf<B> + nalgebra::Scalar,
    B: Jetty + nalgebra::Scalar + SupersetOf<f32> + SupersetOf<f64>,
{
    let mut acc = Acc::new();
    let pname = format!("{}<-{}", aname, bname);
    let ncases = ctx.n(400, 400000);
    let round = |v: f64| -> f64 {
        if A::IS_F32 {
            v as f32 as f64
        } else {
            v
        }
    };
    for ci in 0..ncases {
        if ci % nshards as u64 != shard as u64 {
            continue;
        }
        let mut rng = Rng::stream(ctx.seed, 1300 + tindex, ci);
        let dynd = (rng.below(7), rng.below(4));
        let shape = A::shape(dynd);
        assert_eq!(shape, B::shape(dynd));
        let b = Basis::new(&shape);
        let style = rng.below(STYLES.len());
        // a value of the narrow type
        let re = round(rng.sign() * rng.logu(1e-3, 1e3));
        let mut sa = gen_slots(&mut rng, &b, re, style, A::IS_F32);
        // conversions are storage-level: also use matrices that are NOT symmetric / consistent
        // across duplicate storage slots, so that a transposed or permuted copy changes the value
        if rng.bool() {
            for v in sa.iter_mut().skip(1) {
                *v = round(rng.part());
            }
        }
        let ma = rng.next_u64();
        let a: A = build_with(&shape, &sa, &mut MaskAbsent::new(ma));
        let (pa, prea) = parts_presence(&a, &shape);
        // an arbitrary value of the wide type (not representable in the narrow float in general)
        let bre = rng.sign() * rng.logu(1e-3, 1e3);
        let mut sb = gen_slots(&mut rng, &b, bre, (style + 1) % STYLES.len(), B::IS_F32);
        if rng.bool() {
            for v in sb.iter_mut().skip(1) {
                *v = if B::IS_F32 { rng.part() as f32 as f64 } else { rng.part() };
            }
        }
        let mb = rng.next_u64();
        let wide: B = build_with(&shape, &sb, &mut MaskAbsent::new(mb));
        let (pwide, prewide) = parts_presence(&wide, &shape);
        let case = || json!({"pair": pname, "shape": shape.name(), "narrow_slots": floats(&sa), "narrow_mask": ma, "wide_slots": floats(&sb), "wide_mask": mb});
        let pk = presence_key(&prea);
        macro_rules! bad {
            ($what:expr, $msg:expr) => {
                acc.violate(format!("{}:{}", $what, pname), format!("{} on {} ({}): {}", $what, pname, shape.name(), $msg), case())
            };
        }
        // --- widening preserves every part and presence
        acc.observe(&format!("to_superset|{}|{}|{}", pname, shape.name(), pk), true);
        let w: B = match guarded(|| a.to_superset()) {
            Ok(w) => w,
            Err(m) => {
                bad!("to_superset", format!("panicked: {}", m));
                continue;
            }
        };
        let (pw, prew) = parts_presence(&w, &shape);
        if !eqv(&pw, &pa) || prew != prea {
            bad!("to_superset", format!("parts {:?} presence {:?} -> parts {:?} presence {:?}", pa, prea, pw, prew));
        }
        // --- narrowing back is the identity
        acc.observe(&format!("from_superset.to_superset|{}|{}|{}", pname, shape.name(), pk), true);
        match guarded(|| A::from_superset(&w)) {
            Ok(Some(a2)) => {
                let (p2, pre2) = parts_presence(&a2, &shape);
                if !eqv(&p2, &pa) || pre2 != prea {
                    bad!("roundtrip", format!("narrowing the widened value gives parts {:?} presence {:?}, expected {:?} {:?}", p2, pre2, pa, prea));
                }
            }
            Ok(None) => bad!("roundtrip", format!("from_superset(to_superset(x)) is None for parts {:?} presence {:?}", pa, prea)),
            Err(m) => bad!("roundtrip", format!("panicked: {}", m)),
        }
        // --- coherence: membership <=> checked narrowing succeeds; values are the rounded parts
        let pkw = presence_key(&prewide);
        acc.observe(&format!("coherence|{}|{}|{}", pname, shape.name(), pkw), true);
        let member = A::is_in_subset(&wide);
        let checked = guarded(|| A::from_superset(&wide));
        let want_narrow: Vec<f64> = pwide.iter().map(|v| round(*v)).collect();
        match checked {
            Ok(c) => {
                if member != c.is_some() {
                    bad!("coherence", format!("is_in_subset = {} but from_superset.is_some() = {} (presence {:?})", member, c.is_some(), prewide));
                }
                if let Some(c) = c {
                    let (pc, prec) = parts_presence(&c, &shape);
                    if !eqv(&pc, &want_narrow) || prec != prewide {
                        bad!("checked-narrowing", format!("parts {:?} presence {:?}, expected per-part rounding {:?} presence {:?}", pc, prec, want_narrow, prewide));
                    }
                }
            }
            Err(m) => bad!("coherence", format!("from_superset panicked: {}", m)),
        }
        // floats are always members of the narrower float type in simba, so membership must hold
        if !member {
            bad!("membership", format!("finite wide value reported as not in the subset (presence {:?})", prewide));
        }
        acc.observe(&format!("from_superset_unchecked|{}|{}|{}", pname, shape.name(), pkw), true);
        match guarded(|| A::from_superset_unchecked(&wide)) {
            Ok(c) => {
                let (pc, prec) = parts_presence(&c, &shape);
                if !eqv(&pc, &want_narrow) || prec != prewide {
                    bad!("unchecked-narrowing", format!("parts {:?} presence {:?}, expected per-part rounding {:?} presence {:?}", pc, prec, want_narrow, prewide));
                }
            }
            Err(m) => bad!("unchecked-narrowing", format!("panicked: {}", m)),
        }
        // --- floats in and out
        acc.observe(&format!("float-lift|{}", pname), true);
        let f64v = rng.part() * 3.0;
        let f32v = f64v as f32;
        let l64: B = <B as SupersetOf<f64>>::from_subset(&f64v);
        let l32: B = <B as SupersetOf<f32>>::from_subset(&f32v);
        let (pl64, prel64) = parts_presence(&l64, &shape);
        let (pl32, _) = parts_presence(&l32, &shape);
        let want64 = if B::IS_F32 { f64v as f32 as f64 } else { f64v };
        if pl64[0] != want64 || pl64[1..].iter().any(|v| *v != 0.0) || pl32[0] != f32v as f64 || pl32[1..].iter().any(|v| *v != 0.0) || prel64.iter().any(|p| *p) {
            bad!("float-lift", format!("from_subset({}) has parts {:?} presence {:?}", f64v, pl64, prel64));
        }
        let x64: f64 = <B as SupersetOf<f64>>::to_subset_unchecked(&wide);
        let x32: f32 = <B as SupersetOf<f32>>::to_subset_unchecked(&wide);
        let o64: Option<f64> = <B as SupersetOf<f64>>::to_subset(&wide);
        if x64 != pwide[0] || x32 != pwide[0] as f32 || o64 != Some(pwide[0]) || !<B as SupersetOf<f64>>::is_in_subset(&wide) || !<B as SupersetOf<f32>>::is_in_subset(&wide) {
            bad!("float-extract", format!("to_subset_unchecked = {} / {} / {:?} for real part {}", x64, x32, o64, pwide[0]));
        }
        // --- extraction at real parts a float answers in its own way: infinite, NaN, beyond the f32 range
        // (constants and values with parts): whatever the plain f64 -> f32 / f64 extraction answers
        {
            let special = *rng.choose(&[f64::INFINITY, f64::NEG_INFINITY, f64::NAN, 1e300, -1e39, 3.5e38, 1e-50, -0.0]);
            let special = if B::IS_F32 { special as f32 as f64 } else { special };
            let mut ss = gen_slots(&mut rng, &b, 1.0, 0, B::IS_F32);
            ss[0] = special;
            let with_parts = rng.bool();
            if !with_parts {
                for v in ss.iter_mut().skip(1) {
                    *v = 0.0;
                }
            }
            let xs: B = build_with(&shape, &ss, &mut MaskAbsent::new(rng.next_u64()));
            acc.observe(&format!("float-extract-special|{}|{}", pname, if special.is_nan() { "NaN".to_string() } else { format!("{:e}", special) }), true);
            let same32 = |a: Option<f32>, b: Option<f32>| match (a, b) {
                (Some(p), Some(q)) => p.to_bits() == q.to_bits() || (p.is_nan() && q.is_nan()),
                (None, None) => true,
                _ => false,
            };
            let same64 = |a: Option<f64>, b: Option<f64>| match (a, b) {
                (Some(p), Some(q)) => p.to_bits() == q.to_bits() || (p.is_nan() && q.is_nan()),
                (None, None) => true,
                _ => false,
            };
            let g32: Option<f32> = <B as SupersetOf<f32>>::to_subset(&xs);
            let g64: Option<f64> = <B as SupersetOf<f64>>::to_subset(&xs);
            let (m32, m64) = (<B as SupersetOf<f32>>::is_in_subset(&xs), <B as SupersetOf<f64>>::is_in_subset(&xs));
            // the float's own answers for the stored real part
            let (w32, w64, wm32, wm64): (Option<f32>, Option<f64>, bool, bool) = if B::IS_F32 {
                let r = special as f32;
                (<f32 as SupersetOf<f32>>::to_subset(&r), <f32 as SupersetOf<f64>>::to_subset(&r), <f32 as SupersetOf<f32>>::is_in_subset(&r), <f32 as SupersetOf<f64>>::is_in_subset(&r))
            } else {
                (<f64 as SupersetOf<f32>>::to_subset(&special), <f64 as SupersetOf<f64>>::to_subset(&special), <f64 as SupersetOf<f32>>::is_in_subset(&special), <f64 as SupersetOf<f64>>::is_in_subset(&special))
            };
            if !same32(g32, w32) || !same64(g64, w64) || m32 != wm32 || m64 != wm64 {
                bad!("float-extract-special", format!("to_subset::<f32>/<f64> and is_in_subset at real part {:?} (parts present: {}): {:?} / {:?} / {} / {}, the plain float answers {:?} / {:?} / {} / {}", special, with_parts, g32, g64, m32, m64, w32, w64, wm32, wm64));
            }
        }
        // --- through nalgebra's generic conversions on containers
        acc.observe(&format!("nalgebra-convert|{}|{}", pname, shape.name()), true);
        let mk_a = |rng: &mut Rng| -> A {
            let (re0, st0) = (round(rng.part()), rng.below(STYLES.len()));
            let mut s = gen_slots(rng, &b, re0, st0, A::IS_F32);
            if rng.bool() {
                for v in s.iter_mut().skip(1) {
                    *v = round(rng.part());
                }
            }
            build_with(&shape, &s, &mut MaskAbsent::new(rng.next_u64()))
        };
        let va: DVector<A> = DVector::from_fn(1 + rng.below(3), |_, _| mk_a(&mut rng));
        let r = guarded(|| {
            let vb: DVector<B> = nalgebra::convert(va.clone());
            let vb2: DVector<B> = nalgebra::convert_ref(&va);
            let back: Option<DVector<A>> = nalgebra::try_convert(vb.clone());
            let back_u: DVector<A> = nalgebra::convert_unchecked(vb.clone());
            (vb, vb2, back, back_u)
        });
        match r {
            Ok((vb, vb2, back, back_u)) => {
                for i in 0..va.len() {
                    let want = parts_presence(&va[i], &shape);
                    let g1 = parts_presence(&vb[i], &shape);
                    let g2 = parts_presence(&vb2[i], &shape);
                    if !eqv(&g1.0, &want.0) || g1.1 != want.1 || !eqv(&g2.0, &want.0) || g2.1 != want.1 {
                        bad!("nalgebra::convert", format!("element {}: {:?} -> {:?}", i, want, g1));
                        break;
                    }
                    let gu = parts_presence(&back_u[i], &shape);
                    if !eqv(&gu.0, &want.0) || gu.1 != want.1 {
                        bad!("nalgebra::convert_unchecked", format!("element {}: {:?} -> {:?}", i, want, gu));
                        break;
                    }
                    match &back {
                        Some(bk) => {
                            let g3 = parts_presence(&bk[i], &shape);
                            if !eqv(&g3.0, &want.0) || g3.1 != want.1 {
                                bad!("nalgebra::try_convert", format!("element {}: {:?} -> {:?}", i, want, g3));
                                break;
                            }
                        }
                        None => {
                            bad!("nalgebra::try_convert", "returned None for a vector of representable numbers".to_string());
                            break;
                        }
                    }
                }
            }
            Err(m) => bad!("nalgebra::convert", format!("panicked: {}", m)),
        }
        // float containers cast to dual entries (the only conversion the suite exercises)
        if ci % 8 == 0 {
            acc.observe(&format!("cast-from-floats|{}", pname), true);
            let fm = SMatrix::<f64, 2, 2>::new(1.5, -2.25, 0.125, 4.0);
            let dm: SMatrix<B, 2, 2> = fm.cast();
            let dd: DMatrix<B> = DMatrix::from_fn(2, 3, |i, j| (i * 3 + j) as f64 * 0.5).cast();
            let ok = (0..4).all(|i| parts(&dm[i], &shape)[0] == fm[i] && parts(&dm[i], &shape)[1..].iter().all(|v| *v == 0.0)) && parts(&dd[(1, 2)], &shape)[0] == 2.5;
            if !ok {
                bad!("cast-from-floats", "Matrix::cast of floats did not produce constants with the same real parts".to_string());
            }
        }
        if ci == 0 {
            acc.sample(|| json!({"pair": pname, "shape": shape.name(), "narrow": floats(&pa), "presence": prea, "widened": floats(&pw), "wide": floats(&pwide), "checked_narrowing_expected": floats(&want_narrow)}));
        }
    }
    acc
}

fn main() {
    let ctx = Ctx::from_args("C13");
    let acc = ctx.parallel(|shard, nshards| {
        let mut acc = Acc::new();
        let mut t = 0u64;
        macro_rules! go {
            ($a:ty, $b:ty, $an:expr, $bn:expr) => {
                t += 1;
                acc.merge(pair::<$a, $b>($an, $bn, &ctx, shard, nshards, t));
            };
        }
        go!(Dual32, Dual64, "Dual32", "Dual64");
        go!(Dual64, Dual64, "Dual64", "Dual64");
        go!(Dual32, Dual32, "Dual32", "Dual32");
        go!(Dual2_32, Dual2_64, "Dual2_32", "Dual2_64");
        go!(Dual2_64, Dual2_64, "Dual2_64", "Dual2_64");
        go!(DualSVec32<0>, DualSVec64<0>, "DualSVec32<0>", "DualSVec64<0>");
        go!(DualSVec32<1>, DualSVec64<1>, "DualSVec32<1>", "DualSVec64<1>");
        go!(DualSVec32<2>, DualSVec64<2>, "DualSVec32<2>", "DualSVec64<2>");
        go!(DualSVec32<3>, DualSVec64<3>, "DualSVec32<3>", "DualSVec64<3>");
        go!(DualSVec32<4>, DualSVec64<4>, "DualSVec32<4>", "DualSVec64<4>");
        go!(DualSVec32<5>, DualSVec64<5>, "DualSVec32<5>", "DualSVec64<5>");
        go!(DualSVec32<6>, DualSVec64<6>, "DualSVec32<6>", "DualSVec64<6>");
        go!(DualSVec64<3>, DualSVec64<3>, "DualSVec64<3>", "DualSVec64<3>");
        go!(DualDVec32, DualDVec64, "DualDVec32", "DualDVec64");
        go!(DualDVec64, DualDVec64, "DualDVec64", "DualDVec64");
        go!(DualDVec32, DualDVec32, "DualDVec32", "DualDVec32");
        go!(Dual2SVec32<0>, Dual2SVec64<0>, "Dual2SVec32<0>", "Dual2SVec64<0>");
        go!(Dual2SVec32<1>, Dual2SVec64<1>, "Dual2SVec32<1>", "Dual2SVec64<1>");
        go!(Dual2SVec32<2>, Dual2SVec64<2>, "Dual2SVec32<2>", "Dual2SVec64<2>");
        go!(Dual2SVec32<3>, Dual2SVec64<3>, "Dual2SVec32<3>", "Dual2SVec64<3>");
        go!(Dual2SVec32<4>, Dual2SVec64<4>, "Dual2SVec32<4>", "Dual2SVec64<4>");
        go!(Dual2SVec32<6>, Dual2SVec64<6>, "Dual2SVec32<6>", "Dual2SVec64<6>");
        go!(Dual2SVec64<2>, Dual2SVec64<2>, "Dual2SVec64<2>", "Dual2SVec64<2>");
        go!(Dual2DVec32, Dual2DVec64, "Dual2DVec32", "Dual2DVec64");
        go!(Dual2DVec64, Dual2DVec64, "Dual2DVec64", "Dual2DVec64");
        go!(ndv_core::zoo::DD32, ndv_core::zoo::DD64, "Dual<Dual32>", "Dual<Dual64>");
        go!(DualVec<Dual32, f32, Const<2>>, ndv_core::zoo::DVD2_64, "DualVec<Dual32,2>", "DualVec<Dual64,2>");
        let _ = t;
        acc
    });
    let pairs: std::collections::BTreeSet<String> = acc.classes.keys().filter_map(|k| k.split('|').nth(1).map(|s| s.to_string())).collect();
    let mut extra = serde_json::Map::new();
    extra.insert("type_pairs_observed".into(), json!(pairs));
    // sanitizer lane summaries written by bin/check_c13
    let mut lanes_ok = true;
    if let Ok(p) = std::env::var("VERIF_LANES") {
        match std::fs::read_to_string(&p).ok().and_then(|t| serde_json::from_str::<serde_json::Value>(&t).ok()) {
            Some(v) => {
                lanes_ok = v["miri"]["ran"].as_bool().unwrap_or(false) && v["valgrind"]["ran"].as_bool().unwrap_or(false);
                extra.insert("sanitizer_lanes".into(), v);
            }
            None => lanes_ok = false,
        }
    } else {
        extra.insert("sanitizer_lanes".into(), json!("not run in this invocation (use bin/check C13)"));
    }
    let required = vec![
        ("at least 27 type pairs observed".to_string(), pairs.len() >= 27),
        ("Miri and valgrind lanes ran (memory clause)".to_string(), lanes_ok),
    ];
    ctx.finish(
        acc,
        "class = (conversion route, narrow<-wide type pair, shape incl. run-time dimension, presence pattern); every class is non-trivial (values with independent parts, wide values not representable in the narrow float, optional parts absent by a random mask). Routes: to_superset, from_superset after to_superset, is_in_subset vs from_superset, from_superset_unchecked, float lifting and extraction, nalgebra convert / convert_ref / try_convert / convert_unchecked on vectors, Matrix::cast from floats.",
        &[
            "memory clause: decided by Miri (UB, uninitialised reads, out-of-bounds, leaks) and valgrind memcheck (leaks, invalid accesses) on harness/ndv-miri, which drives the same routes incl. nested element types that own heap memory; their summaries are in sanitizer_lanes",
            "simba reports every finite f64 as a member of f32, so checked narrowing never fails for float leaves",
        ],
        extra,
        &required,
    );
}
