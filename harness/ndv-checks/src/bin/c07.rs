//! C07 — absent derivative parts behave exactly like all-zero derivative parts.
//! Differential monitor on the vector-valued types: a program (or a history of compound
//! assignments on an accumulator that starts as a constant) is run with every zero part of every
//! input represented in all 2^k ways (absent <-> explicit zeros); every node value must be
//! numerically identical in all runs, and assignment histories must equal the same history written
//! with the non-assigning operators.

use ndv_core::evidence::{floats, guarded, Acc, Ctx};
use ndv_core::jetty::*;
use ndv_core::program::{generate, BinOp, Form, GenCfg, Node, ProgTy, Program};
use ndv_core::zoo::*;
use ndv_core::{Basis, Rng};
use serde_json::json;

/// inputs whose optional groups are zero with probability 1/2 each
fn gen_inputs(rng: &mut Rng, b: &Basis, x: &[f64], f32: bool) -> Vec<Vec<f64>> {
    x.iter()
        .map(|x0| {
            // decide per (level-0) monomial degree class and per variable block whether it is zero
            let zero_deg1 = rng.bool();
            let zero_deg2 = rng.bool();
            let zero_all = rng.chance(0.2);
            let mut dv = vec![0.0; b.n()];
            dv[0] = *x0;
            for m in 1..b.n() {
                let z = zero_all || if b.deg[m] == 1 { zero_deg1 } else { zero_deg2 };
                // additionally single variables can be zero inside a non-zero group
                dv[m] = if z || rng.chance(0.15) { 0.0 } else { rng.part() };
                if f32 {
                    dv[m] = dv[m] as f32 as f64;
                }
            }
            b.slot_mono.iter().map(|&m| dv[m]).collect()
        })
        .collect()
}

fn zero_groups<T: Jetty>(shape: &ndv_core::Shape, slots: &[f64]) -> u32 {
    // number of times the chooser is consulted with all_zero = true
    struct Count(u32);
    impl AbsentChooser for Count {
        fn absent(&mut self, all_zero: bool) -> bool {
            if all_zero {
                self.0 += 1;
            }
            false
        }
    }
    let mut c = Count(0);
    let _: T = build_with(shape, slots, &mut c);
    c.0
}

/// history: acc starts as a constant, then `len` compound assignments with dual / scalar operands
fn history(rng: &mut Rng, ninputs: usize, x: &[f64], f32: bool) -> (Program, Program) {
    let mut nodes: Vec<Node> = (0..ninputs).map(Node::Input).collect();
    let mut vals: Vec<f64> = x.to_vec();
    // a few derived operands
    for _ in 0..rng.below(3) {
        let a = rng.below(nodes.len());
        let b = rng.below(nodes.len());
        nodes.push(Node::Bin(BinOp::Mul, a, b, Form::RR));
        vals.push(vals[a] * vals[b]);
    }
    let c0 = (rng.sign() * rng.logu(0.5, 4.0)) as f32 as f64;
    nodes.push(match rng.below(4) {
        0 => Node::One,
        1 => Node::ConstPrim(c0.round().max(1.0) as i32),
        _ => Node::Const(c0),
    });
    vals.push(match nodes.last().unwrap() {
        Node::One => 1.0,
        Node::ConstPrim(k) => *k as f64,
        _ => c0,
    });
    let mut assign = nodes.clone();
    let mut plain = nodes.clone();
    let mut acc = nodes.len() - 1;
    let nops = 1 + rng.below(if f32 { 8 } else { 30 });
    let operands = nodes.len() - 1;
    for _ in 0..nops {
        let op = *rng.choose(&[BinOp::Add, BinOp::Sub, BinOp::Mul, BinOp::Div]);
        let cur = vals[acc];
        if rng.chance(0.3) {
            let s = (rng.sign() * rng.logu(0.3, 3.0)) as f32 as f64;
            let v = match op {
                BinOp::Add => cur + s,
                BinOp::Sub => cur - s,
                BinOp::Mul => cur * s,
                BinOp::Div => cur / s,
            };
            if !v.is_finite() || v.abs() > 1e4 || (v.abs() < 1e-3) {
                continue;
            }
            assign.push(Node::AssignScalar(op, acc, s));
            plain.push(Node::Scalar(op, acc, s));
            vals.push(v);
        } else {
            let r = rng.below(operands);
            let rv = vals[r];
            if op == BinOp::Div && rv.abs() < 0.05 {
                continue;
            }
            let v = match op {
                BinOp::Add => cur + rv,
                BinOp::Sub => cur - rv,
                BinOp::Mul => cur * rv,
                BinOp::Div => cur / rv,
            };
            if !v.is_finite() || v.abs() > 1e4 || (v.abs() < 1e-3) {
                continue;
            }
            assign.push(Node::Assign(op, acc, r));
            plain.push(Node::Bin(op, acc, r, *rng.choose(&[Form::VV, Form::VR, Form::RV, Form::RR])));
            vals.push(v);
        }
        acc = assign.len() - 1;
    }
    (Program { ninputs, nodes: assign }, Program { ninputs, nodes: plain })
}

fn check_type<T: ProgTy>(tname: &str, ctx: &Ctx, shard: usize, nshards: usize, tindex: u64) -> Acc {
    let mut acc = Acc::new();
    let ncases = ctx.n(600, 300000);
    for ci in 0..ncases {
        if ci % nshards as u64 != shard as u64 {
            continue;
        }
        let mut rng = Rng::stream(ctx.seed, 700 + tindex, ci);
        let shape = T::shape((rng.below(4), rng.below(3)));
        let b = Basis::new(&shape);
        let n = 1 + rng.below(3);
        let x: Vec<f64> = (0..n)
            .map(|_| (match rng.below(3) { 0 => rng.range(0.2, 2.0), 1 => rng.range(-2.0, -0.2), _ => rng.range(0.05, 0.9) }) as f32 as f64)
            .collect();
        let is_history = ci % 3 == 0;
        let (prog, plain) = if is_history {
            let (a, p) = history(&mut rng, n, &x, T::IS_F32);
            (a, Some(p))
        } else {
            let cfg = GenCfg { max_nodes: 4 + rng.below(20), ninputs: n, f32: T::IS_F32, selects: true, allow_sph: true };
            (generate(&mut rng, &cfg, &x).0, None)
        };
        let slots = gen_inputs(&mut rng, &b, &x, T::IS_F32);
        let ks: Vec<u32> = slots.iter().map(|s| zero_groups::<T>(&shape, s)).collect();
        let ktot: u32 = ks.iter().sum();
        let case = |masks: &[u64]| json!({"type": tname, "shape": shape.name(), "program": prog.to_json(), "inputs": slots.iter().map(|s| floats(s)).collect::<Vec<_>>(), "absent_masks": masks, "zero_groups_per_input": ks});
        let run = |masks: &[u64], p: &Program| -> Result<Vec<Vec<f64>>, String> {
            let inputs: Vec<T> = slots.iter().zip(masks).map(|(s, m)| build_with(&shape, s, &mut MaskAbsent::new(*m))).collect();
            guarded(|| p.eval::<T>(&inputs).iter().map(|v| parts(v, &shape)).collect())
        };
        let zero_masks = vec![0u64; n];
        let reference = match run(&zero_masks, &prog) {
            Ok(r) => r,
            Err(m) => {
                acc.violate(format!("panic:{}", tname), format!("program on {} (all parts present) panicked: {}", tname, m), case(&zero_masks));
                continue;
            }
        };
        if reference.iter().any(|p| p.iter().any(|v| !v.is_finite())) {
            acc.count("cases_skipped_nonfinite_reference", 1);
            continue;
        }
        let kind = if is_history { "history" } else { "program" };
        // all 2^k representations (k <= 8), else 256 random ones
        let total = if ktot <= 8 { 1u64 << ktot } else { 256 };
        for mi in 1..total.max(2) {
            let bits = if ktot <= 8 { mi } else { rng.next_u64() };
            // split the bits over the inputs
            let mut masks = Vec::with_capacity(n);
            let mut sh = 0;
            for k in &ks {
                masks.push((bits >> sh) & ((1u64 << k) - 1).max(0));
                sh += k;
            }
            if ktot == 0 {
                // nothing to vary: still run once with an all-ones mask (no zero group exists)
                masks = vec![u64::MAX; n];
            }
            let class = format!("{}|{}|k{}", kind, tname, ktot.min(9));
            acc.observe(&class, ktot >= 1 && bits != 0);
            match run(&masks, &prog) {
                Ok(r) => {
                    let mut bad = None;
                    'outer: for (ni, (a, bb)) in r.iter().zip(&reference).enumerate() {
                        for s in 0..a.len() {
                            if a[s] != bb[s] {
                                bad = Some((ni, s, a[s], bb[s]));
                                break 'outer;
                            }
                        }
                    }
                    if let Some((ni, s, a, bb)) = bad {
                        acc.violate(
                            format!("absent-vs-zero:{}:{}", prog.nodes[ni].opname(), tname),
                            format!(
                                "{} on {}: node {} ({:?}) part {}: {:e} with absent parts (masks {:?}) but {:e} with explicit zeros",
                                kind, tname, ni, prog.nodes[ni], s, a, masks, bb
                            ),
                            case(&masks),
                        );
                        break;
                    }
                }
                Err(m) => {
                    acc.violate(format!("panic:{}", tname), format!("program on {} panicked with absent parts: {}", tname, m), case(&masks));
                    break;
                }
            }
            // Clone / clone_from (also through Vec) copy a value whatever its representation and
            // whatever the target held before
            if mi <= 2 {
                let src_absent: T = build_with(&shape, &slots[0], &mut MaskAbsent::new(masks[0]));
                let src_zeros: T = build_with(&shape, &slots[0], &mut MaskAbsent::new(0));
                let busy: Vec<f64> = (0..slots[0].len()).map(|i| 1.5 + i as f64).collect();
                let target: T = build_all(&shape, &busy);
                let want = parts(&src_zeros, &shape);
                acc.observe(&format!("clone|{}", tname), ktot >= 1);
                let res = guarded(|| {
                    let c0 = parts(&src_absent.clone(), &shape);
                    let mut t1 = target.clone();
                    t1.clone_from(&src_absent);
                    let mut v = vec![target.clone(), target.clone()];
                    v.clone_from(&vec![src_absent.clone(), src_zeros.clone()]);
                    let mut w = vec![target.clone(), target.clone()];
                    w.clone_from_slice(&[src_zeros.clone(), src_absent.clone()]);
                    vec![c0, parts(&t1, &shape), parts(&v[0], &shape), parts(&v[1], &shape), parts(&w[0], &shape), parts(&w[1], &shape)]
                });
                match res {
                    Ok(all) => {
                        let names = ["clone()", "clone_from", "Vec::clone_from[0]", "Vec::clone_from[1]", "clone_from_slice[0]", "clone_from_slice[1]"];
                        for (nm, got) in names.iter().zip(&all) {
                            if got != &want {
                                acc.violate(format!("clone:{}:{}", nm, tname), format!("{} of a {} whose zero parts are absent (mask {}) gives {:?}, the value is {:?}", nm, tname, masks[0], got, want), case(&masks));
                                break;
                            }
                        }
                    }
                    Err(m) => acc.violate(format!("clone:{}:panic", tname), format!("clone / clone_from on {} panicked: {}", tname, m), case(&masks)),
                }
            }
            // assignment history == the same history with non-assigning operators
            if let Some(pl) = &plain {
                if let Ok(r2) = run(&masks, pl) {
                    acc.observe(&format!("history-vs-operators|{}", tname), true);
                    let r1 = run(&masks, &prog).unwrap_or_default();
                    for (ni, (a, bb)) in r1.iter().zip(&r2).enumerate() {
                        if a.iter().zip(bb).any(|(p, q)| p != q) {
                            acc.violate(
                                format!("assign-vs-operator:{}:{}", prog.nodes[ni].opname(), tname),
                                format!("{} on {}: node {} ({:?}) = {:?} but with the non-assigning operator ({:?}) = {:?}", kind, tname, ni, prog.nodes[ni], a, pl.nodes[ni], bb),
                                case(&masks),
                            );
                            break;
                        }
                    }
                }
            }
        }
        if ci < 2 && tindex % 5 == 0 {
            acc.sample(|| json!({"type": tname, "kind": kind, "program": prog.to_json(), "inputs": slots.iter().map(|s| floats(s)).collect::<Vec<_>>(), "zero_groups": ktot, "representations_run": total}));
        }
        acc.maxi("max_zero_groups_in_a_case", ktot as f64);
        acc.count("cases", 1);
    }
    acc
}


/// Direct monitor of the optional-matrix container (`Derivative`): every public operator and
/// every representation (absent / explicit zeros / values) of both operands; the unwrapped result
/// must equal the element-wise (or matrix-product) result on explicit matrices.  All values are
/// dyadic with few bits, so every operation is exact and equality is exact (`-0.0 == 0.0`).
mod container {
    use super::*;
    use nalgebra::allocator::Allocator;
    use nalgebra::{DefaultAllocator, Dim, OMatrix};
    use num_dual::{Derivative, DualNum};

    pub trait El: DualNum<f64> + Copy + std::fmt::Debug + 'static {
        const NAME: &'static str;
        fn mk(a: f64, b: f64) -> Self;
        fn parts(&self) -> [f64; 2];
        /// same real part as `other`, own derivative part (identity for floats)
        fn with_re_of(&self, other: &Self) -> Self;
    }
    impl El for f64 {
        const NAME: &'static str = "f64";
        fn mk(a: f64, _b: f64) -> Self {
            a
        }
        fn parts(&self) -> [f64; 2] {
            [*self, 0.0]
        }
        fn with_re_of(&self, other: &Self) -> Self {
            *other
        }
    }
    impl El for Dual64 {
        const NAME: &'static str = "Dual64";
        fn mk(a: f64, b: f64) -> Self {
            Dual64::new(a, b)
        }
        fn parts(&self) -> [f64; 2] {
            [self.re, self.eps]
        }
        fn with_re_of(&self, other: &Self) -> Self {
            Dual64::new(other.re, self.eps)
        }
    }

    fn dy(rng: &mut Rng) -> f64 {
        rng.int(-16, 16) as f64 / 4.0
    }

    /// representation 0: absent, 1: explicit zeros, 2: values
    fn operand<T: El, R: Dim, C: Dim>(rng: &mut Rng, r: R, c: C, rep: usize) -> (Derivative<T, f64, R, C>, OMatrix<T, R, C>)
    where
        DefaultAllocator: Allocator<R, C>,
    {
        let mut m = OMatrix::<T, R, C>::zeros_generic(r, c);
        if rep == 2 {
            for e in m.iter_mut() {
                *e = T::mk(dy(rng), dy(rng));
            }
        }
        let d = if rep == 0 { Derivative::none() } else { Derivative::some(m.clone()) };
        (d, m)
    }

    fn same<T: El, R: Dim, C: Dim>(got: &OMatrix<T, R, C>, want: &OMatrix<T, R, C>) -> bool
    where
        DefaultAllocator: Allocator<R, C>,
    {
        got.shape() == want.shape() && got.iter().zip(want.iter()).all(|(g, w)| g.parts() == w.parts())
    }

    fn show<T: El, R: Dim, C: Dim>(m: &OMatrix<T, R, C>) -> String
    where
        DefaultAllocator: Allocator<R, C>,
    {
        format!("{:?}", m.iter().map(|e| e.parts()).collect::<Vec<_>>())
    }

    pub fn run<T: El, R: Dim, C: Dim>(sname: &str, r: R, c: C, ctx: &Ctx, shard: usize, nshards: usize, sidx: u64) -> Acc
    where
        DefaultAllocator: Allocator<R, C> + Allocator<C, R> + Allocator<R, R> + Allocator<C, C>,
    {
        let mut acc = Acc::new();
        let rounds = ctx.n(40, 20000);
        let tag = format!("{}x{}[{}]", sname, T::NAME, if r.value() * c.value() == 0 { "empty" } else { "nonempty" });
        for round in 0..rounds {
            if round % nshards as u64 != shard as u64 {
                continue;
            }
            let mut rng = Rng::stream(ctx.seed, 7700 + sidx, round);
            for ra in 0..3usize {
                // rb = 3: values whose real parts coincide element by element with those of a (for
                // dual elements the derivative parts still differ: `==` on them sees equality)
                for rb in 0..4usize {
                    if rb == 3 && ra != 2 {
                        continue;
                    }
                    let (a, ma) = operand::<T, R, C>(&mut rng, r, c, ra);
                    let (mut b, mut mb) = operand::<T, R, C>(&mut rng, r, c, rb.min(2));
                    if rb == 3 {
                        for (eb, ea) in mb.iter_mut().zip(ma.iter()) {
                            *eb = eb.with_re_of(ea);
                        }
                        b = Derivative::some(mb.clone());
                    }
                    let s = T::mk(*rng.choose(&[0.5, -0.5, 2.0, -2.0, 4.0, 0.25, 1.0, -1.0]), dy(&mut rng));
                    let reps = format!("{}{}", ["absent", "zeros", "values"][ra], ["-absent", "-zeros", "-values", "-values-with-equal-real-parts"][rb]);
                    let check = |acc: &mut Acc, op: &str, got: Result<OMatrix<T, R, C>, String>, want: OMatrix<T, R, C>| {
                        acc.observe(&format!("container|{}|{}|{}", tag, op, reps), ra == 0 || rb == 0);
                        match got {
                            Ok(g) if same(&g, &want) => {}
                            Ok(g) => acc.violate(
                                format!("container:{}:{}:{}", op, sname, reps),
                                format!("Derivative {} on {} ({}) unwraps to {}, explicit matrices give {}", op, tag, reps, show(&g), show(&want)),
                                json!({"shape": tag, "op": op, "reps": reps, "a": show(&ma), "b": show(&mb), "s": format!("{:?}", s.parts())}),
                            ),
                            Err(e) => acc.violate(format!("container:{}:{}:panic", op, sname), format!("Derivative {} on {} ({}) panicked: {}", op, tag, reps, e), json!({"shape": tag, "op": op, "reps": reps})),
                        }
                    };
                    let un = |d: Derivative<T, f64, R, C>| d.unwrap_generic(r, c);
                    // additive family, all syntactic forms
                    let want_add = ma.zip_map(&mb, |x, y| x + y);
                    let want_sub = ma.zip_map(&mb, |x, y| x - y);
                    check(&mut acc, "add(val,val)", guarded(|| un(a.clone() + b.clone())), want_add.clone());
                    check(&mut acc, "add(val,ref)", guarded(|| un(a.clone() + &b)), want_add.clone());
                    check(&mut acc, "add(ref,ref)", guarded(|| un(&a + &b)), want_add.clone());
                    check(&mut acc, "sub(val,val)", guarded(|| un(a.clone() - b.clone())), want_sub.clone());
                    check(&mut acc, "sub(val,ref)", guarded(|| un(a.clone() - &b)), want_sub.clone());
                    check(&mut acc, "sub(ref,ref)", guarded(|| un(&a - &b)), want_sub.clone());
                    check(&mut acc, "add_assign", guarded(|| { let mut t = a.clone(); t += b.clone(); un(t) }), want_add);
                    check(&mut acc, "sub_assign", guarded(|| { let mut t = a.clone(); t -= b.clone(); un(t) }), want_sub);
                    if rb == 0 {
                        // unary / scalar family (once per representation of a)
                        check(&mut acc, "neg(val)", guarded(|| un(-a.clone())), ma.map(|x| -x));
                        check(&mut acc, "neg(ref)", guarded(|| un(-&a)), ma.map(|x| -x));
                        check(&mut acc, "mul_scalar(val)", guarded(|| un(a.clone() * s)), ma.map(|x| x * s));
                        check(&mut acc, "mul_scalar(ref)", guarded(|| un(&a * s)), ma.map(|x| x * s));
                        check(&mut acc, "div_scalar(val)", guarded(|| un(a.clone() / s)), ma.map(|x| x / s));
                        check(&mut acc, "div_scalar(ref)", guarded(|| un(&a / s)), ma.map(|x| x / s));
                        check(&mut acc, "mul_assign_scalar", guarded(|| { let mut t = a.clone(); t *= s; un(t) }), ma.map(|x| x * s));
                        check(&mut acc, "div_assign_scalar", guarded(|| { let mut t = a.clone(); t /= s; un(t) }), ma.map(|x| x / s));
                    }
                    // products: (R,C)*(C,R) -> (R,R) and tr_mul: (R,C)^T (R,C) -> (C,C)
                    let (bt, mbt) = operand::<T, C, R>(&mut rng, c, r, rb.min(2));
                    acc.observe(&format!("container|{}|matmul|{}", tag, reps), ra == 0 || rb == 0);
                    let want = {
                        let mut w = OMatrix::<T, R, R>::zeros_generic(r, r);
                        for i in 0..r.value() {
                            for j in 0..r.value() {
                                let mut sacc = T::mk(0.0, 0.0);
                                for k in 0..c.value() {
                                    sacc = sacc + ma[(i, k)] * mbt[(k, j)];
                                }
                                w[(i, j)] = sacc;
                            }
                        }
                        w
                    };
                    match guarded(|| (&a * &bt).unwrap_generic(r, r)) {
                        Ok(g) if same(&g, &want) => {}
                        Ok(g) => acc.violate(format!("container:matmul:{}:{}", sname, reps), format!("Derivative product on {} ({}) unwraps to {}, explicit matrices give {}", tag, reps, show(&g), show(&want)), json!({"shape": tag, "reps": reps, "a": show(&ma), "b": show(&mbt)})),
                        Err(e) => acc.violate(format!("container:matmul:{}:panic", sname), format!("Derivative product on {} ({}) panicked: {}", tag, reps, e), json!({"shape": tag, "reps": reps})),
                    }
                    acc.observe(&format!("container|{}|tr_mul|{}", tag, reps), ra == 0 || rb == 0);
                    let want = {
                        let mut w = OMatrix::<T, C, C>::zeros_generic(c, c);
                        for i in 0..c.value() {
                            for j in 0..c.value() {
                                let mut sacc = T::mk(0.0, 0.0);
                                for k in 0..r.value() {
                                    sacc = sacc + ma[(k, i)] * mb[(k, j)];
                                }
                                w[(i, j)] = sacc;
                            }
                        }
                        w
                    };
                    match guarded(|| a.tr_mul(&b).unwrap_generic(c, c)) {
                        Ok(g) if same(&g, &want) => {}
                        Ok(g) => acc.violate(format!("container:tr_mul:{}:{}", sname, reps), format!("Derivative tr_mul on {} ({}) unwraps to {}, explicit matrices give {}", tag, reps, show(&g), show(&want)), json!({"shape": tag, "reps": reps, "a": show(&ma), "b": show(&mb)})),
                        Err(e) => acc.violate(format!("container:tr_mul:{}:panic", sname), format!("Derivative tr_mul on {} ({}) panicked: {}", tag, reps, e), json!({"shape": tag, "reps": reps})),
                    }
                }
            }
            // unit seeds
            let len = r.value() * c.value();
            for i in 0..len {
                acc.observe(&format!("container|{}|derivative_generic", tag), true);
                match guarded(|| Derivative::<T, f64, R, C>::derivative_generic(r, c, i).unwrap_generic(r, c)) {
                    Ok(m) => {
                        let ok = m.iter().enumerate().all(|(k, e)| e.parts() == [if k == i { 1.0 } else { 0.0 }, 0.0]);
                        if !ok {
                            acc.violate(format!("container:derivative_generic:{}", sname), format!("derivative_generic({}) on {} gives {}", i, tag, show(&m)), json!({"shape": tag, "i": i}));
                        }
                    }
                    Err(e) => acc.violate(format!("container:derivative_generic:{}:panic", sname), format!("derivative_generic({}) on {} panicked: {}", i, tag, e), json!({"shape": tag, "i": i})),
                }
            }
        }
        acc
    }

    /// the 1x1 conveniences `derivative()` and `unwrap()`
    pub fn scalar_conveniences<T: El>(ctx: &Ctx) -> Acc {
        use nalgebra::U1;
        let mut acc = Acc::new();
        let mut rng = Rng::stream(ctx.seed, 7799, 0);
        for _ in 0..ctx.n(50, 5000) {
            let v = T::mk(dy(&mut rng), dy(&mut rng));
            acc.observe(&format!("container|1x1x{}|derivative()+unwrap()", T::NAME), true);
            let d = Derivative::<T, f64, U1, U1>::derivative();
            let one = d.clone().unwrap();
            let none = Derivative::<T, f64, U1, U1>::none().unwrap();
            let some = Derivative::<T, f64, U1, U1>::some(nalgebra::SVector::<T, 1>::from_element(v)).unwrap();
            let scaled = (d * v).unwrap();
            if one.parts() != [1.0, 0.0] || none.parts() != [0.0, 0.0] || some.parts() != v.parts() || scaled.parts() != v.parts() {
                acc.violate(
                    format!("container:scalar-conveniences:{}", T::NAME),
                    format!("derivative().unwrap() = {:?}, none().unwrap() = {:?}, some(v).unwrap() = {:?}, (derivative()*v).unwrap() = {:?} for v = {:?}", one.parts(), none.parts(), some.parts(), scaled.parts(), v.parts()),
                    json!({"v": format!("{:?}", v.parts())}),
                );
            }
        }
        acc
    }
}

/// Drivers and conversions: a constant written as an absent part (`from_re`) and the same constant
/// carrying explicit zero parts must give identical driver results and identical conversions.
mod drivers {
    use super::*;
    use nalgebra::allocator::Allocator;
    use nalgebra::{DefaultAllocator, Dim, OVector, U1};
    use num_dual::{gradient, hessian, jacobian, partial_hessian, Dual2Vec, DualNum, DualVec, HyperDualVec};

    fn vecd<D: Dim>(d: D, xs: &[f64]) -> OVector<f64, D>
    where
        DefaultAllocator: Allocator<D>,
    {
        OVector::from_iterator_generic(d, U1, xs.iter().copied())
    }

    pub fn run<M: Dim, N: Dim>(name: &str, m: M, n: N, ctx: &Ctx, shard: usize, nshards: usize, sidx: u64) -> Acc
    where
        DefaultAllocator: Allocator<M> + Allocator<N> + Allocator<M, N> + Allocator<U1, N> + Allocator<U1, M> + Allocator<N, N> + Allocator<M, M> + Allocator<N, M>,
    {
        let mut acc = Acc::new();
        let (mm, nn) = (m.value(), n.value());
        for round in 0..ctx.n(30, 20000) {
            if round % nshards as u64 != shard as u64 {
                continue;
            }
            let mut rng = Rng::stream(ctx.seed, 7900 + sidx, round);
            let xs: Vec<f64> = (0..nn).map(|_| rng.range(0.3, 1.7)).collect();
            let ys: Vec<f64> = (0..mm).map(|_| rng.range(0.3, 1.7)).collect();
            let cs: Vec<f64> = (0..mm.max(1)).map(|_| rng.range(-2.0, 2.0)).collect();
            // ---- jacobian: M outputs of N variables; kind 0 = constant, 1 = product, 2 = sine
            if nn >= 1 && mm >= 1 {
                let kinds: Vec<usize> = (0..mm).map(|_| rng.below(3)).collect();
                let idx: Vec<(usize, usize)> = (0..mm).map(|_| (rng.below(nn), rng.below(nn))).collect();
                let nconst = kinds.iter().filter(|k| **k == 0).count();
                let run = |explicit: bool| {
                    jacobian(
                        |x: OVector<DualVec<f64, f64, N>, N>| {
                            OVector::<DualVec<f64, f64, N>, M>::from_iterator_generic(
                                m,
                                U1,
                                (0..mm).map(|j| match kinds[j] {
                                    0 => {
                                        if explicit {
                                            x[0].clone() * 0.0 + cs[j]
                                        } else {
                                            DualVec::from_re(cs[j])
                                        }
                                    }
                                    1 => x[idx[j].0].clone() * x[idx[j].1].clone(),
                                    _ => x[idx[j].0].sin() + cs[j],
                                }),
                            )
                        },
                        vecd(n, &xs),
                    )
                };
                acc.observe(&format!("driver|jacobian|{}|{}-constant-outputs", name, nconst.min(3)), nconst > 0);
                match (guarded(|| run(false)), guarded(|| run(true))) {
                    (Ok(a), Ok(b)) => {
                        if a.0 != b.0 || a.1 != b.1 {
                            acc.violate(format!("driver:jacobian:{}", name), format!("jacobian ({}) with constant outputs written as absent parts gives {:?}, with explicit zero parts {:?} (output kinds {:?})", name, a.1.iter().collect::<Vec<_>>(), b.1.iter().collect::<Vec<_>>(), kinds), json!({"dims": name, "x": xs, "kinds": kinds}));
                        }
                    }
                    (a, b) => acc.violate(format!("driver:jacobian:{}:panic", name), format!("jacobian panicked: {:?} / {:?}", a.err(), b.err()), json!({"dims": name})),
                }
            }
            // ---- gradient and hessian of N variables: constant, linear, quadratic
            if nn >= 1 {
                let kind = rng.below(3);
                let (a, b2) = (rng.below(nn), rng.below(nn));
                let g = |explicit: bool| {
                    gradient(
                        |x: OVector<DualVec<f64, f64, N>, N>| match kind {
                            0 => {
                                if explicit {
                                    x[0].clone() * 0.0 + cs[0]
                                } else {
                                    DualVec::from_re(cs[0])
                                }
                            }
                            1 => x[a].clone() * 3.0 + if explicit { x[0].clone() * 0.0 + cs[0] } else { DualVec::from_re(cs[0]) },
                            _ => x[a].clone() * x[b2].clone(),
                        },
                        vecd(n, &xs),
                    )
                };
                acc.observe(&format!("driver|gradient|{}|{}", name, ["constant", "linear", "quadratic"][kind]), kind < 2);
                match (guarded(|| g(false)), guarded(|| g(true))) {
                    (Ok(p), Ok(q)) => {
                        if p != q {
                            acc.violate(format!("driver:gradient:{}", name), format!("gradient ({}) differs between absent and explicit-zero constants: {:?} vs {:?}", name, p.1.iter().collect::<Vec<_>>(), q.1.iter().collect::<Vec<_>>()), json!({"dims": name, "x": xs, "kind": kind}));
                        }
                    }
                    (p, q) => acc.violate(format!("driver:gradient:{}:panic", name), format!("gradient panicked: {:?} / {:?}", p.err(), q.err()), json!({"dims": name})),
                }
                let h = |explicit: bool| {
                    hessian(
                        |x: OVector<Dual2Vec<f64, f64, N>, N>| {
                            let zero = if explicit { (x[0].clone() * x[0].clone()) * 0.0 } else { Dual2Vec::from_re(0.0) };
                            match kind {
                                0 => zero + cs[0],
                                1 => x[a].clone() * 3.0 - x[b2].clone() + zero,
                                _ => x[a].clone() * x[b2].clone() + zero,
                            }
                        },
                        vecd(n, &xs),
                    )
                };
                acc.observe(&format!("driver|hessian|{}|{}", name, ["constant", "linear", "quadratic"][kind]), kind < 2);
                match (guarded(|| h(false)), guarded(|| h(true))) {
                    (Ok(p), Ok(q)) => {
                        if p != q {
                            acc.violate(format!("driver:hessian:{}", name), format!("hessian ({}) differs between absent and explicit-zero parts: {:?} / {:?} vs {:?} / {:?}", name, p.1.iter().collect::<Vec<_>>(), p.2.iter().collect::<Vec<_>>(), q.1.iter().collect::<Vec<_>>(), q.2.iter().collect::<Vec<_>>()), json!({"dims": name, "x": xs, "kind": kind}));
                        }
                    }
                    (p, q) => acc.violate(format!("driver:hessian:{}:panic", name), format!("hessian panicked: {:?} / {:?}", p.err(), q.err()), json!({"dims": name})),
                }
            }
            // ---- partial_hessian of (M, N) variables: constant, x only, y only, mixed
            if nn >= 1 && mm >= 1 {
                let kind = rng.below(4);
                let (a, b2) = (rng.below(mm), rng.below(nn));
                let ph = |explicit: bool| {
                    partial_hessian(
                        |x: OVector<HyperDualVec<f64, f64, M, N>, M>, y: OVector<HyperDualVec<f64, f64, M, N>, N>| {
                            let zero = if explicit { (x[0].clone() * y[0].clone()) * 0.0 } else { HyperDualVec::from_re(0.0) };
                            match kind {
                                0 => zero + cs[0],
                                1 => x[a].clone() * x[a].clone() + zero,
                                2 => y[b2].sin() + zero,
                                _ => x[a].clone() * y[b2].clone() + zero,
                            }
                        },
                        vecd(m, &ys),
                        vecd(n, &xs),
                    )
                };
                acc.observe(&format!("driver|partial_hessian|{}|{}", name, ["constant", "x-only", "y-only", "mixed"][kind]), kind < 3);
                match (guarded(|| ph(false)), guarded(|| ph(true))) {
                    (Ok(p), Ok(q)) => {
                        if p != q {
                            acc.violate(format!("driver:partial_hessian:{}", name), format!("partial_hessian ({}) differs between absent and explicit-zero parts (kind {})", name, kind), json!({"dims": name, "x": ys, "y": xs, "kind": kind}));
                        }
                    }
                    (p, q) => acc.violate(format!("driver:partial_hessian:{}:panic", name), format!("partial_hessian panicked: {:?} / {:?}", p.err(), q.err()), json!({"dims": name})),
                }
            }
        }
        acc
    }

    /// narrowing / widening conversions see an absent part exactly like an all-zero one
    pub fn conversions(ctx: &Ctx) -> Acc {
        use nalgebra::{Const, SVector};
        use num_dual::{Derivative, DualSVec32, DualSVec64};
        use simba::scalar::{SubsetOf, SupersetOf};
        let mut acc = Acc::new();
        let mut rng = Rng::stream(ctx.seed, 7999, 0);
        for _ in 0..ctx.n(200, 50000) {
            let re = (rng.range(-3.0, 3.0) as f32) as f64;
            let absent: DualSVec64<2> = DualVec::from_re(re);
            let zeros: DualSVec64<2> = DualVec::new(re, Derivative::some(SVector::<f64, 2>::zeros()));
            acc.observe("conversion|DualSVec64<2>->DualSVec32<2>|absent-vs-zeros", true);
            let a = (<DualSVec32<2> as SubsetOf<DualSVec64<2>>>::is_in_subset(&absent), <DualSVec32<2> as SubsetOf<DualSVec64<2>>>::is_in_subset(&zeros));
            let b: (Option<DualSVec32<2>>, Option<DualSVec32<2>>) = (absent.to_subset(), zeros.to_subset());
            let eq = |p: &Option<DualSVec32<2>>, q: &Option<DualSVec32<2>>| match (p, q) {
                (Some(p), Some(q)) => p.re == q.re && p.eps.clone().unwrap_generic(Const::<2>, U1) == q.eps.clone().unwrap_generic(Const::<2>, U1),
                (None, None) => true,
                _ => false,
            };
            if a.0 != a.1 || !eq(&b.0, &b.1) {
                acc.violate("conversion:absent-vs-zeros".into(), format!("is_in_subset / to_subset of a DualSVec64<2> constant: absent part -> ({}, {:?}), explicit zeros -> ({}, {:?})", a.0, b.0.map(|v| v.re), a.1, b.1.map(|v| v.re)), json!({"re": re}));
            }
            // containers go through is_in_subset element by element
            acc.observe("conversion|SVector<DualSVec64<2>,2>->SVector<DualSVec32<2>,2>|absent-vs-zeros", true);
            let va = SVector::<DualSVec64<2>, 2>::from([absent.clone(), zeros.clone()]);
            let vb = SVector::<DualSVec64<2>, 2>::from([zeros.clone(), zeros.clone()]);
            let ca: Option<SVector<DualSVec32<2>, 2>> = nalgebra::try_convert(va);
            let cb: Option<SVector<DualSVec32<2>, 2>> = nalgebra::try_convert(vb);
            if ca.is_some() != cb.is_some() {
                acc.violate("conversion:container:absent-vs-zeros".into(), format!("nalgebra::try_convert of a vector of constants: with an absent part {:?}, with explicit zeros {:?}", ca.is_some(), cb.is_some()), json!({"re": re}));
            }
        }
        acc
    }
}

fn main() {
    let ctx = Ctx::from_args("C07");
    let acc = ctx.parallel(|shard, nshards| {
        let mut acc = Acc::new();
        let mut t = 0u64;
        macro_rules! go {
            ($ty:ty, $name:expr) => {
                t += 1;
                acc.merge(check_type::<$ty>($name, &ctx, shard, nshards, t));
            };
        }
        ndv_core::zoo_svec64!(go);
        ndv_core::zoo_svec32!(go);
        ndv_core::zoo_dvec!(go);
        go!(ndv_core::zoo::DVD2_64, "DualVec<Dual64,2>");
        go!(ndv_core::zoo::D2VD2_64, "Dual2Vec<Dual64,2>");
        go!(ndv_core::zoo::HDVD_64, "HyperDualVec<Dual64,2,2>");
        go!(ndv_core::zoo::DVDD_64, "DualVec<Dual64,Dyn>");
        go!(ndv_core::zoo::DDV2_64, "Dual<DualSVec64<2>>");
        go!(DualVec<DualSVec64<2>, f64, Const<2>>, "DualVec<DualSVec64<2>,2>");
        let _ = t;
        // the container itself, all shapes incl. empty ones, float and dual elements
        {
            use nalgebra::{Const, Dyn};
            let mut si = 0u64;
            macro_rules! cont {
                ($name:expr, $r:expr, $c:expr) => {
                    si += 1;
                    acc.merge(container::run::<f64, _, _>($name, $r, $c, &ctx, shard, nshards, si));
                    acc.merge(container::run::<Dual64, _, _>($name, $r, $c, &ctx, shard, nshards, 100 + si));
                };
            }
            cont!("1x1", Const::<1>, Const::<1>);
            cont!("3x1", Const::<3>, Const::<1>);
            cont!("1x3", Const::<1>, Const::<3>);
            cont!("2x3", Const::<2>, Const::<3>);
            cont!("0x1", Const::<0>, Const::<1>);
            cont!("Dyn(4)x1", Dyn(4), Const::<1>);
            cont!("Dyn(0)x1", Dyn(0), Const::<1>);
            cont!("1xDyn(2)", Const::<1>, Dyn(2));
            cont!("Dyn(3)xDyn(2)", Dyn(3), Dyn(2));
            cont!("Dyn(2)xDyn(0)", Dyn(2), Dyn(0));
            let _ = si;
            {
                use nalgebra::{Const, Dyn};
                acc.merge(drivers::run("M3xN2", Const::<3>, Const::<2>, &ctx, shard, nshards, 1));
                acc.merge(drivers::run("M2xN3", Const::<2>, Const::<3>, &ctx, shard, nshards, 2));
                acc.merge(drivers::run("M1xN1", Const::<1>, Const::<1>, &ctx, shard, nshards, 3));
                acc.merge(drivers::run("MDyn(4)xNDyn(3)", Dyn(4), Dyn(3), &ctx, shard, nshards, 4));
                acc.merge(drivers::run("MDyn(2)xNDyn(5)", Dyn(2), Dyn(5), &ctx, shard, nshards, 5));
            }
            if shard == 0 {
                acc.merge(drivers::conversions(&ctx));
                acc.merge(container::scalar_conveniences::<f64>(&ctx));
                acc.merge(container::scalar_conveniences::<Dual64>(&ctx));
            }
        }
        acc
    });
    let types: std::collections::BTreeSet<String> = acc.classes.keys().filter_map(|k| k.split('|').nth(1).map(|s| s.to_string())).collect();
    let mut extra = serde_json::Map::new();
    extra.insert("types_observed".into(), json!(types));
    let hist = acc.classes.keys().filter(|k| k.starts_with("history|")).count();
    let required = vec![
        ("at least 24 vector-valued types observed".to_string(), types.len() >= 24),
        ("assignment histories observed".to_string(), hist >= 20),
        ("container operators observed in all nine representation pairs on at least eight shapes".to_string(), acc.classes.keys().filter(|k| k.starts_with("container|") && k.contains("|add(val,val)|")).count() >= 9 * 8),
    ];
    ctx.finish(
        acc,
        "one evaluation = one run of a program/history under one representation of the zero parts, compared node by node with the all-present run; class = (program | history, type, number k of zero optional parts); non-trivial = k >= 1 and at least one part absent. All 2^k representations are run for k <= 8 (256 random ones beyond). Histories start from a constant accumulator and apply up to 30 compound assignments (+= -= *= /= with dual and scalar right-hand sides), and are also compared with the same history written with the non-assigning operators.",
        &["finite operands only (0*x = 0 exactly), -0.0 == +0.0; cases whose all-present run is non-finite are skipped and counted", "the conversion monitor of C13 and the driver monitor of C05 also build constants with absent parts; the checks here only compare the two representations with each other"],
        extra,
        &required,
    );
}
