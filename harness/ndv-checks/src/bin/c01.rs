//! C01 — elementary functions carry exact derivatives on every dual number type.
//! Monitor: every call g(x) on every type of the zoo is compared, part by part, with the
//! composition of g's Taylor expansion (from power-series recurrences) with the operand's parts.

use ndv_core::evidence::{floats, hexes, Acc, Ctx};
use ndv_core::funcs::{apply, c01_funcs, regions};
use ndv_core::gen::{gen_slots, presence_key, round_to, STYLES};
use ndv_core::jetty::*;
use ndv_core::model::Jet;
use ndv_core::taylor::{self, Func};
use ndv_core::track::Tr;
use ndv_core::zoo::*;
use ndv_core::{Basis, Rng};
use num_traits::Signed;
use serde_json::json;

const K: f64 = 32.0;

fn dynd(rng: &mut Rng) -> (usize, usize) {
    (rng.below(5) + 1, rng.below(4) + 1)
}

#[allow(clippy::too_many_arguments)]
fn compare(
    acc: &mut Acc,
    what: &str,
    tname: &str,
    class: &str,
    b: &Basis,
    u: f64,
    got: &[f64],
    want: &[f64],
    mag: &[f64],
    nontrivial: bool,
    floor: f64,
    case: impl Fn() -> serde_json::Value,
) {
    acc.observe(class, nontrivial);
    let mut worst = 0.0f64;
    let mut bad: Option<(usize, f64)> = None;
    for s in 0..got.len() {
        let tol = K * u * mag[s] + floor;
        let d = (got[s] - want[s]).abs();
        let ok = if got[s].is_finite() { d <= tol } else { false };
        let r = if d <= floor { 0.0 } else if mag[s] > 0.0 { d / (u * mag[s]) } else if d == 0.0 { 0.0 } else { f64::INFINITY };
        if r.is_finite() && ok {
            worst = worst.max(r);
        }
        if !ok && bad.is_none() {
            bad = Some((s, r));
        }
    }
    acc.ratio(worst, || format!("{} on {}", what, tname));
    acc.maxi(&format!("ratio[{}]", what), worst);
    if let Some((s, r)) = bad {
        let m = b.slot_mono[s];
        acc.violate(
            format!("{}:{}:deg{}", what, tname, b.deg[m]),
            format!(
                "{} on {} part {} ({}): got {:e} want {:e} ratio {:.3e} (bound {})",
                what,
                tname,
                s,
                b.mono_name(m),
                got[s],
                want[s],
                r,
                K
            ),
            case(),
        );
    }
}

fn check_type<T: Jetty>(tname: &str, ctx: &Ctx, shard: usize, nshards: usize, tindex: u64) -> Acc {
    let mut acc = Acc::new();
    let per = ctx.n(60, 30000);
    let funcs = c01_funcs();
    let u = unit_roundoff::<T>();
    ndv_core::track::set_u(u);
    let mut idx = 0u64;
    for (fi, f) in funcs.iter().enumerate() {
        let regs = regions(*f);
        for (ri, (rname, rfun)) in regs.iter().enumerate() {
            for rep in 0..per {
                idx += 1;
                if idx % nshards as u64 != shard as u64 {
                    continue;
                }
                let mut rng = Rng::stream(ctx.seed, tindex * 1000 + fi as u64 * 10 + ri as u64, rep);
                let shape = T::shape(dynd(&mut rng));
                let b = Basis::new(&shape);
                let x0 = round_to(rfun(&mut rng), T::IS_F32);
                let style = (rep as usize) % STYLES.len();
                let slots = gen_slots(&mut rng, &b, x0, style, T::IS_F32);
                let mask = rng.next_u64();
                let x: T = build_with(&shape, &slots, &mut MaskAbsent::new(mask));
                let (_, pres_in) = parts_presence(&x, &shape);
                let y = apply::<T, T::F>(*f, &x);
                let got = parts(&y, &shape);
                let xin = Tr::exact(Jet::from_slots(&b, &slots), &b);
                let m = xin.func(*f, &b);
                let (want, mag) = m.slots(&b);
                // non-trivial: some part has a contribution beyond the linear term
                let g = taylor::taylor(*f, x0, b.max_deg + 2);
                let lin = xin.v.abs().nil().scale(&g[1].abs());
                let nontrivial = if b.max_deg >= 2 {
                    (1..b.n()).any(|i| {
                        let tot = m.e.c[i];
                        tot > 0.0 && (tot / 2.0 - lin.c[i]).abs() > 0.01 * tot / 2.0
                    })
                } else {
                    slots[1..].iter().any(|v| *v != 0.0 && v.abs() != 1.0)
                };
                let class = format!("{}|{}|{}|{}|{}", f.short(), tname, rname, STYLES[style], presence_key(&pres_in));
                let name = f.name();
                ndv_core::evlog::log_unary("C01", tname, *f, &b, &slots, &got, T::IS_F32);
                compare(&mut acc, &name, tname, &class, &b, u, &got, &want, &mag, nontrivial, 0.0, || {
                    json!({"type": tname, "shape": shape.name(), "func": name, "x_slots": floats(&slots), "x_slots_hex": hexes(&slots), "absent_mask": mask, "got": floats(&got), "want": floats(&want)})
                });
                if rep == 0 && ri == 0 && fi % 7 == (tindex % 7) as usize {
                    acc.sample(|| json!({"type": tname, "func": name, "region": rname, "x_slots": floats(&slots), "got": floats(&got), "model": floats(&want)}));
                }
            }
        }
        // wide bands: far from the moderate regions, as long as every contributing term stays
        // inside the float range (cases where one does not are skipped and counted)
        for (ri, (rname, rfun)) in ndv_core::funcs::wide_regions(*f, T::IS_F32).iter().enumerate() {
            for rep in 0..ctx.n(24, 6000) {
                idx += 1;
                if idx % nshards as u64 != shard as u64 {
                    continue;
                }
                let mut rng = Rng::stream(ctx.seed, tindex * 1000 + 500 + fi as u64 * 10 + ri as u64, rep);
                let shape = T::shape(dynd(&mut rng));
                let b = Basis::new(&shape);
                let x0 = round_to(rfun(&mut rng), T::IS_F32);
                // every third case carries first-order parts only (what the drivers seed): higher parts would mask
                // a damaged high-order coefficient behind the much larger f' * v3 terms
                let style = if rep % 3 == 1 { 4 } else { (rep as usize) % STYLES.len() };
                let slots = gen_slots(&mut rng, &b, x0, style, T::IS_F32);
                let xin = Tr::exact(Jet::from_slots(&b, &slots), &b);
                let m = xin.func(*f, &b);
                let (want, mag) = m.slots(&b);
                let (lim, floor) = if T::IS_F32 { (1e36, 1e-36) } else { (1e290, 1e-290) };
                // head-room for the products the chain rule forms on the way (coefficient times up to
                // `order` parts, in any order)
                let pmax = slots[1..].iter().fold(1.0f64, |a, v| a.max(v.abs()));
                let gw = taylor::taylor(*f, x0, b.max_deg + 1);
                let coeff_out = (1..=b.max_deg).any(|k| {
                    let c = gw[k].abs() * (1..=k).product::<usize>() as f64 * pmax.powi(k as i32);
                    !c.is_finite() || c > lim
                });
                if coeff_out || want.iter().chain(mag.iter()).any(|v| !v.is_finite() || v.abs() > lim) {
                    acc.count("wide_cases_skipped_term_outside_float_range", 1);
                    continue;
                }
                let mask = rng.next_u64();
                let x: T = build_with(&shape, &slots, &mut MaskAbsent::new(mask));
                let y = apply::<T, T::F>(*f, &x);
                let got = parts(&y, &shape);
                let class = format!("{}|{}|{}|{}", f.short(), tname, rname, STYLES[style]);
                let name = f.name();
                ndv_core::evlog::log_unary("C01", tname, *f, &b, &slots, &got, T::IS_F32);
                compare(&mut acc, &name, tname, &class, &b, u, &got, &want, &mag, b.max_deg >= 1, floor, || {
                    json!({"type": tname, "shape": shape.name(), "func": name, "region": rname, "x_slots": floats(&slots), "x_slots_hex": hexes(&slots), "absent_mask": mask, "got": floats(&got), "want": floats(&want)})
                });
            }
        }
        // sin_cos must equal (sin, cos) bitwise
        if *f == Func::Sin {
            let mut rng = Rng::stream(ctx.seed, tindex * 1000 + 999, shard as u64);
            for _ in 0..ctx.n(4, 100) {
                let shape = T::shape(dynd(&mut rng));
                let b = Basis::new(&shape);
                let x0 = round_to(rng.range(-7.0, 7.0), T::IS_F32);
                let slots = gen_slots(&mut rng, &b, x0, 0, T::IS_F32);
                let x: T = build_all(&shape, &slots);
                let (s, c) = x.sin_cos();
                let (ps, pc) = (parts(&s, &shape), parts(&c, &shape));
                let (qs, qc) = (parts(&x.sin(), &shape), parts(&x.cos(), &shape));
                acc.observe(&format!("sin_cos|{}", tname), true);
                if ps.iter().zip(&qs).any(|(a, b)| a.to_bits() != b.to_bits())
                    || pc.iter().zip(&qc).any(|(a, b)| a.to_bits() != b.to_bits())
                {
                    acc.violate(
                        format!("sin_cos:{}", tname),
                        format!("sin_cos differs from (sin, cos) on {}", tname),
                        json!({"type": tname, "x_slots": floats(&slots)}),
                    );
                }
            }
        }
    }
    // abs / signum / abs_sub / atan2
    let mut rng = Rng::stream(ctx.seed, tindex * 1000 + 998, shard as u64);
    for rep in 0..ctx.n(24, 600) {
        let shape = T::shape(dynd(&mut rng));
        let b = Basis::new(&shape);
        let x0 = round_to(rng.sign() * rng.logu(1e-3, 1e3), T::IS_F32);
        let slots = gen_slots(&mut rng, &b, x0, (rep % 2) as usize, T::IS_F32);
        let x: T = build_with(&shape, &slots, &mut MaskAbsent::new(rng.next_u64()));
        let sgn = if x0 > 0.0 { 1.0 } else { -1.0 };
        // abs: sign(x0) * x, exactly
        let got = parts(&x.abs(), &shape);
        let want: Vec<f64> = slots.iter().map(|v| sgn * v).collect();
        acc.observe(&format!("abs|{}|{}", tname, if sgn > 0.0 { "pos" } else { "neg" }), true);
        if got.iter().zip(&want).any(|(a, b)| a != b) {
            acc.violate(
                format!("abs:{}", tname),
                format!("abs on {} at {:e}: got {:?} want {:?}", tname, x0, got, want),
                json!({"type": tname, "x_slots": floats(&slots)}),
            );
        }
        // signum: constant sign(x0)
        let got = parts(&x.signum(), &shape);
        acc.observe(&format!("signum|{}|{}", tname, if sgn > 0.0 { "pos" } else { "neg" }), true);
        if got[0] != sgn || got[1..].iter().any(|v| *v != 0.0) {
            acc.violate(
                format!("signum:{}", tname),
                format!("signum on {} at {:e}: got {:?}", tname, x0, got),
                json!({"type": tname, "x_slots": floats(&slots)}),
            );
        }
        // abs_sub(x, y) = x - y if x > y else 0
        let y0 = round_to(rng.sign() * rng.logu(1e-3, 1e3), T::IS_F32);
        let yslots = gen_slots(&mut rng, &b, y0, 0, T::IS_F32);
        let y: T = build_all(&shape, &yslots);
        let got = parts(&x.abs_sub(&y), &shape);
        let diff = parts(&(x.clone() - y.clone()), &shape);
        let want: Vec<f64> = if x0 > y0 { diff } else { vec![0.0; slots.len()] };
        acc.observe(&format!("abs_sub|{}|{}", tname, if x0 > y0 { "gt" } else { "le" }), true);
        if got.iter().zip(&want).any(|(a, b)| a != b) {
            acc.violate(
                format!("abs_sub:{}", tname),
                format!("abs_sub on {} x0={:e} y0={:e}: got {:?} want {:?}", tname, x0, y0, got, want),
                json!({"type": tname, "x_slots": floats(&slots), "y_slots": floats(&yslots)}),
            );
        }
    }
    // atan2(y, x): all four quadrants, |y|<>|x|, against Im log(x + i y) in the model algebra
    for rep in 0..ctx.n(32, 1500) {
        let shape = T::shape(dynd(&mut rng));
        let b = Basis::new(&shape);
        let quad = rep % 4;
        let steep = (rep / 4) % 2 == 0;
        let (a, c) = (rng.logu(0.2, 5.0), rng.logu(0.2, 5.0));
        let (big, small) = (a.max(c) * 1.3, a.min(c));
        let (ya, xa) = if steep { (big, small) } else { (small, big) };
        let y0 = round_to(if quad >= 2 { -ya } else { ya }, T::IS_F32);
        let x0 = round_to(if quad == 1 || quad == 2 { -xa } else { xa }, T::IS_F32);
        let style = (rep as usize / 8) % STYLES.len();
        let ys = gen_slots(&mut rng, &b, y0, style, T::IS_F32);
        let xs = gen_slots(&mut rng, &b, x0, 0, T::IS_F32);
        let y: T = build_with(&shape, &ys, &mut MaskAbsent::new(rng.next_u64()));
        let x: T = build_with(&shape, &xs, &mut MaskAbsent::new(rng.next_u64()));
        let got = parts(&y.atan2(x), &shape);
        let (want, mag) = model_atan2(&Jet::from_slots(&b, &ys), &Jet::from_slots(&b, &xs), &b);
        let class = format!("atan2|{}|q{}|{}|{}", tname, quad, if steep { "|y|>|x|" } else { "|y|<|x|" }, STYLES[style]);
        compare(&mut acc, "atan2", tname, &class, &b, unit_roundoff::<T>(), &got, &want, &mag, b.max_deg >= 2 || true, 0.0, || {
            json!({"type": tname, "func": "atan2", "y_slots": floats(&ys), "x_slots": floats(&xs), "got": floats(&got), "want": floats(&want)})
        });
    }
    acc
}

/// atan2(y,x) = Im log(x + i y): log z = log z0 + sum_k (-1)^(k+1) (n/z0)^k / k with n the
/// nilpotent part of z, in complex jet arithmetic. Returns slot values and magnitude sums.
fn model_atan2(y: &Jet<f64>, x: &Jet<f64>, b: &Basis) -> (Vec<f64>, Vec<f64>) {
    let d = b.max_deg;
    let (x0, y0) = (x.c[0], y.c[0]);
    let r2 = x0 * x0 + y0 * y0;
    // w = n / z0 = (nx + i ny) * (x0 - i y0) / r2
    let nx = x.nil();
    let ny = y.nil();
    let wr = nx.scale(&(x0 / r2)).add(&ny.scale(&(y0 / r2)));
    let wi = ny.scale(&(x0 / r2)).sub(&nx.scale(&(y0 / r2)));
    // magnitude jet |w| <= (|nx| + |ny|) / r
    let r = r2.sqrt();
    let wm = nx.abs().add(&ny.abs()).scale(&(1.0 / r));
    let mut pr = Jet::constant(b, 1.0);
    let mut pi = Jet::zero(b);
    let mut pm = Jet::constant(b, 1.0);
    let mut im = Jet::zero(b);
    let mut mag = Jet::zero(b);
    for k in 1..=d {
        // p *= w
        let nr = pr.mul(&wr, b).sub(&pi.mul(&wi, b));
        let ni = pr.mul(&wi, b).add(&pi.mul(&wr, b));
        pr = nr;
        pi = ni;
        pm = pm.mul(&wm, b);
        let s = if k % 2 == 1 { 1.0 } else { -1.0 } / k as f64;
        im = im.add(&pi.scale(&s));
        // the crate goes through a quotient and atan's closed forms: charge 4 units per term
        mag = mag.add(&pm.scale(&(4.0 / k as f64)));
    }
    im.c[0] = y0.atan2(x0);
    mag.c[0] = im.c[0].abs();
    (im.to_slots(b), mag.to_slots(b))
}

fn main() {
    let ctx = Ctx::from_args("C01");
    ndv_checks::warm_up_f32();
    let mut acc = ctx.parallel(|shard, nshards| {
        let mut acc = Acc::new();
        let mut t = 0u64;
        macro_rules! go {
            ($ty:ty, $name:expr) => {
                t += 1;
                acc.merge(check_type::<$ty>($name, &ctx, shard, nshards, t));
            };
        }
        ndv_core::zoo_all!(go);
        let _ = t;
        acc
    });
    // results must not depend on what was called before, on which thread, or at the same time
    acc.merge(ndv_checks::history_independence(ndv_checks::Family::Elementary, &ctx));
    let funcs_seen: std::collections::BTreeSet<String> =
        acc.classes.keys().map(|k| k.split('|').next().unwrap().to_string()).collect();
    let types_seen: std::collections::BTreeSet<String> =
        acc.classes.keys().filter_map(|k| k.split('|').nth(1).map(|s| s.to_string())).collect();
    let mut extra = serde_json::Map::new();
    extra.insert("functions_observed".into(), json!(funcs_seen));
    extra.insert("types_observed".into(), json!(types_seen));
    extra.insert("K".into(), json!(K));
    let required = vec![
        ("all 28 function kinds observed".to_string(), funcs_seen.len() >= 28),
        ("at least 40 types observed".to_string(), types_seen.len() >= 40),
    ];
    ctx.finish(
        acc,
        "class = (function, type, argument region, part style, presence pattern of optional parts); a class counts as non-trivial when one of its cases had a result part with a contribution beyond the linear chain-rule term of at least 1% (first-order types: a non-unit derivative part). Cases: stratified random per (function, region) with fixed per-class repetitions; operands have independent non-unit parts of every order, absent parts chosen by a random mask.",
        &["libm float functions accurate to ~1 ulp (they supply g(x0) for both the crate and the model)", "first-order rounding analysis; tolerance K*u*sum|terms| with K=32 calibrated on the unchanged tree"],
        extra,
        &required,
    );
}
