//! C11 — dual numbers satisfy nalgebra's real-field contract.
//! Monitors on Dual, DualVec, Dual2, Dual2Vec (f32/f64, static and dynamic): (1) every RealField
//! constant against the float constant of the same name; (2) every ComplexField/RealField method
//! against the generic dual operation it stands for (bitwise) and against the reference model;
//! (3) the real part of every method against the same trait method on the plain float;
//! (4) selection methods return one of the operands with its own parts; (5) the single-lane
//! SimdValue view round-trips values.

use nalgebra::{ComplexField, RealField, SimdValue};
use ndv_core::evidence::{floats, guarded, Acc, Ctx};
use ndv_core::gen::{gen_slots, STYLES};
use ndv_core::jetty::*;
use ndv_core::model::Jet;
use ndv_core::taylor::Func;
use ndv_core::track::Tr;
use ndv_core::zoo::*;
use ndv_core::{Basis, Rng};
use num_dual::DualNum;
use num_traits::Signed;
use serde_json::json;

const K: f64 = 32.0;

fn eqv(a: &[f64], b: &[f64]) -> bool {
    a.len() == b.len() && a.iter().zip(b).all(|(p, q)| p == q || (p.is_nan() && q.is_nan()))
}
fn ulps(a: f64, b: f64, f32: bool) -> u64 {
    if f32 {
        ndv_core::ulp_diff_f32(a as f32, b as f32)
    } else {
        ndv_core::ulp_diff_f64(a, b)
    }
}

fn check_type<T>(tname: &str, ctx: &Ctx, shard: usize, nshards: usize, tindex: u64) -> Acc
where
    T: Jetty + RealField + SimdValue<Element = T, SimdBool = bool>,
    T::F: RealField + DualNum<T::F>,
{
    let mut acc = Acc::new();
    let u = unit_roundoff::<T>();
    ndv_core::track::set_u(u);
    let fv = |x: T::F| -> f64 { x.into() };
    // ------------------------------------------------------------------ (1) constants
    if shard == 0 {
        let shape = T::shape((2, 2));
        macro_rules! konst {
            ($($n:ident),*) => { $(
                acc.observe(&format!("const:{}|{}", stringify!($n), tname), true);
                let g = parts(&<T as RealField>::$n(), &shape);
                let w = fv(<T::F as RealField>::$n());
                if g[0].to_bits() != w.to_bits() || g[1..].iter().any(|v| *v != 0.0) {
                    acc.violate(format!("const:{}:{}", stringify!($n), tname), format!("RealField::{}() on {}: parts {:?}, the float constant is {:e}", stringify!($n), tname, g, w), json!({"type": tname, "constant": stringify!($n)}));
                }
            )* };
        }
        konst!(pi, two_pi, frac_pi_2, frac_pi_3, frac_pi_4, frac_pi_6, frac_pi_8, frac_1_pi, frac_2_pi, frac_2_sqrt_pi, e, log2_e, log10_e, ln_2, ln_10);
        for (nm, g, w) in [
            ("min_value", <T as RealField>::min_value(), <T::F as RealField>::min_value()),
            ("max_value", <T as RealField>::max_value(), <T::F as RealField>::max_value()),
        ] {
            acc.observe(&format!("const:{}|{}", nm, tname), true);
            let ok = match (&g, &w) {
                (Some(g), Some(w)) => {
                    let p = parts(g, &shape);
                    p[0].to_bits() == fv(*w).to_bits() && p[1..].iter().all(|v| *v == 0.0)
                }
                (None, None) => true,
                _ => false,
            };
            if !ok {
                acc.violate(format!("const:{}:{}", nm, tname), format!("RealField::{}() on {} differs from the float's", nm, tname), json!({"type": tname, "constant": nm}));
            }
        }
        acc.observe(&format!("lanes|{}", tname), true);
        if <T as SimdValue>::LANES != 1 {
            acc.violate(format!("lanes:{}", tname), format!("{}::LANES = {}", tname, <T as SimdValue>::LANES), json!({"type": tname}));
        }
    }
    // ------------------------------------------------------------------ (2)-(5) methods
    let ncases = ctx.n(600, 600000);
    for ci in 0..ncases {
        if ci % nshards as u64 != shard as u64 {
            continue;
        }
        let mut rng = Rng::stream(ctx.seed, 1100 + tindex, ci);
        let shape = T::shape((1 + rng.below(4), 1));
        let b = Basis::new(&shape);
        let style = rng.below(STYLES.len());
        // three operands: x in (-0.9, 0.9) \ 0 (fits every function's domain after a shift), y, z
        let xr = (rng.sign() * rng.range(0.05, 0.9)) as f32 as f64;
        let yr = (rng.sign() * rng.logu(0.1, 6.0)) as f32 as f64;
        let zr = (rng.sign() * rng.logu(0.1, 6.0)) as f32 as f64;
        let sx = gen_slots(&mut rng, &b, xr, style, T::IS_F32);
        let sy = gen_slots(&mut rng, &b, yr, 0, T::IS_F32);
        let sz = gen_slots(&mut rng, &b, zr, (style + 1) % STYLES.len(), T::IS_F32);
        let x: T = build_with(&shape, &sx, &mut MaskAbsent::new(rng.next_u64()));
        let y: T = build_with(&shape, &sy, &mut MaskAbsent::new(rng.next_u64()));
        let z: T = build_with(&shape, &sz, &mut MaskAbsent::new(rng.next_u64()));
        let (xf, yf, zf): (T::F, T::F, T::F) = (f_of::<T>(xr), f_of::<T>(yr), f_of::<T>(zr));
        let p = |v: &T| parts(v, &shape);
        let case = || json!({"type": tname, "shape": shape.name(), "x": floats(&sx), "y": floats(&sy), "z": floats(&sz)});
        // positive operands for the functions that need them
        let xp: T = Signed::abs(&x) + T::from(f_of::<T>(1.25)); // > 1.3
        let xpf: T::F = f_of::<T>(xr.abs()) + f_of::<T>(1.25);
        let yp: T = Signed::abs(&y);
        let ypf: T::F = f_of::<T>(yr.abs());
        let n = rng.int(-5, 5) as i32;
        // forwarding: field method == generic dual operation, bitwise; real part == float method
        macro_rules! fwd {
            ($name:expr, $field:expr, $generic:expr, $float:expr, $ulp:expr) => {{
                acc.observe(&format!("fwd:{}|{}", $name, tname), true);
                match guarded(|| ($field, $generic)) {
                    Ok((g, w)) => {
                        let (g, w) = (p(&g), p(&w));
                        if !eqv(&g, &w) {
                            acc.violate(format!("fwd:{}:{}", $name, tname), format!("{} on {}: {:?} but the generic operation gives {:?}", $name, tname, g, w), case());
                        }
                        let fl: f64 = fv($float);
                        let d = ulps(g[0], fl, T::IS_F32);
                        acc.maxi(&format!("re_ulps[{}]", $name), d as f64);
                        if d > $ulp {
                            acc.violate(format!("re:{}:{}", $name, tname), format!("{} on {}: real part {:e}, the float method gives {:e} ({} ulp, allowed {})", $name, tname, g[0], fl, d, $ulp), case());
                        }
                    }
                    Err(m) => acc.violate(format!("fwd:{}:{}:panic", $name, tname), format!("{} on {} panicked: {}", $name, tname, m), case()),
                }
            }};
        }
        fwd!("sin", ComplexField::sin(x.clone()), DualNum::sin(&x), ComplexField::sin(xf), 0);
        fwd!("cos", ComplexField::cos(x.clone()), DualNum::cos(&x), ComplexField::cos(xf), 0);
        fwd!("tan", ComplexField::tan(x.clone()), DualNum::tan(&x), ComplexField::tan(xf), 4);
        fwd!("sin_cos.0", ComplexField::sin_cos(x.clone()).0, DualNum::sin_cos(&x).0, ComplexField::sin_cos(xf).0, 0);
        fwd!("sin_cos.1", ComplexField::sin_cos(x.clone()).1, DualNum::sin_cos(&x).1, ComplexField::sin_cos(xf).1, 0);
        fwd!("asin", ComplexField::asin(x.clone()), DualNum::asin(&x), ComplexField::asin(xf), 0);
        fwd!("acos", ComplexField::acos(x.clone()), DualNum::acos(&x), ComplexField::acos(xf), 0);
        fwd!("atan", ComplexField::atan(y.clone()), DualNum::atan(&y), ComplexField::atan(yf), 0);
        fwd!("sinh", ComplexField::sinh(y.clone()), DualNum::sinh(&y), ComplexField::sinh(yf), 0);
        fwd!("cosh", ComplexField::cosh(y.clone()), DualNum::cosh(&y), ComplexField::cosh(yf), 0);
        fwd!("tanh", ComplexField::tanh(y.clone()), DualNum::tanh(&y), ComplexField::tanh(yf), 0);
        fwd!("asinh", ComplexField::asinh(y.clone()), DualNum::asinh(&y), ComplexField::asinh(yf), 0);
        fwd!("acosh", ComplexField::acosh(xp.clone()), DualNum::acosh(&xp), ComplexField::acosh(xpf), 0);
        fwd!("atanh", ComplexField::atanh(x.clone()), DualNum::atanh(&x), ComplexField::atanh(xf), 0);
        fwd!("ln", ComplexField::ln(yp.clone()), DualNum::ln(&yp), ComplexField::ln(ypf), 0);
        fwd!("log2", ComplexField::log2(yp.clone()), DualNum::log2(&yp), ComplexField::log2(ypf), 0);
        fwd!("log10", ComplexField::log10(yp.clone()), DualNum::log10(&yp), ComplexField::log10(ypf), 0);
        fwd!("ln_1p", ComplexField::ln_1p(yp.clone()), DualNum::ln_1p(&yp), ComplexField::ln_1p(ypf), 0);
        fwd!("sqrt", ComplexField::sqrt(yp.clone()), DualNum::sqrt(&yp), ComplexField::sqrt(ypf), 0);
        fwd!("cbrt", ComplexField::cbrt(y.clone()), DualNum::cbrt(&y), ComplexField::cbrt(yf), 0);
        fwd!("exp", ComplexField::exp(y.clone()), DualNum::exp(&y), ComplexField::exp(yf), 0);
        fwd!("exp2", ComplexField::exp2(y.clone()), DualNum::exp2(&y), ComplexField::exp2(yf), 0);
        fwd!("exp_m1", ComplexField::exp_m1(y.clone()), DualNum::exp_m1(&y), ComplexField::exp_m1(yf), 0);
        fwd!("recip", ComplexField::recip(y.clone()), DualNum::recip(&y), ComplexField::recip(yf), 0);
        fwd!("powi", ComplexField::powi(y.clone(), n), DualNum::powi(&y, n), ComplexField::powi(yf, n), 8);
        fwd!("powf(dual)", ComplexField::powf(yp.clone(), x.clone()), DualNum::powd(&yp, x.clone()), ComplexField::powf(ypf, xf), 8);
        fwd!("powc(dual)", ComplexField::powc(yp.clone(), x.clone()), DualNum::powd(&yp, x.clone()), ComplexField::powc(ypf, xf), 8);
        fwd!("log(dual base)", ComplexField::log(yp.clone(), xp.clone()), DualNum::ln(&yp) / DualNum::ln(&xp), ComplexField::log(ypf, xpf), 4);
        {
            // a base / exponent whose real part is exactly 2, 10, e or 1/2 but which is a variable
            let c = *rng.choose(&[2.0, 10.0, std::f64::consts::E, 0.5]);
            let c = if T::IS_F32 { c as f32 as f64 } else { c };
            let mut sb = sz.clone();
            sb[0] = c;
            let sbase: T = build_all(&shape, &sb);
            let sbf: T::F = f_of::<T>(c);
            fwd!("log(special dual base)", ComplexField::log(yp.clone(), sbase.clone()), DualNum::ln(&yp) / DualNum::ln(&sbase), ComplexField::log(ypf, sbf), 4);
            fwd!("powc(special dual exponent)", ComplexField::powc(yp.clone(), sbase.clone()), DualNum::powd(&yp, sbase.clone()), ComplexField::powc(ypf, sbf), 128); // exp(y ln x) loses ~|y ln x| ulp; |y ln x| <= 18 here
            fwd!("powc(special dual base)", ComplexField::powc(sbase.clone(), x.clone()), DualNum::powd(&sbase, x.clone()), ComplexField::powc(sbf, xf), 8);
        }
        fwd!("mul_add", ComplexField::mul_add(x.clone(), y.clone(), z.clone()), DualNum::mul_add(&x, y.clone(), z.clone()), xf * yf + zf, 2);
        fwd!("scale", ComplexField::scale(x.clone(), y.clone()), x.clone() * y.clone(), ComplexField::scale(xf, yf), 0);
        fwd!("unscale", ComplexField::unscale(x.clone(), y.clone()), x.clone() / y.clone(), ComplexField::unscale(xf, yf), 2);
        fwd!("modulus", ComplexField::modulus(y.clone()), Signed::abs(&y), ComplexField::modulus(yf), 0);
        fwd!("norm1", ComplexField::norm1(y.clone()), Signed::abs(&y), ComplexField::norm1(yf), 0);
        fwd!("abs", ComplexField::abs(y.clone()), Signed::abs(&y), ComplexField::abs(yf), 0);
        fwd!("modulus_squared", ComplexField::modulus_squared(y.clone()), y.clone() * y.clone(), ComplexField::modulus_squared(yf), 0);
        fwd!("conjugate", ComplexField::conjugate(y.clone()), y.clone(), ComplexField::conjugate(yf), 0);
        fwd!("real", ComplexField::real(y.clone()), y.clone(), ComplexField::real(yf), 0);
        fwd!("from_real", <T as ComplexField>::from_real(y.clone()), y.clone(), yf, 0);
        fwd!("imaginary", ComplexField::imaginary(y.clone()), T::from(f_of::<T>(0.0)), ComplexField::imaginary(yf), 0);
        fwd!("hypot", ComplexField::hypot(x.clone(), y.clone()), DualNum::sqrt(&(DualNum::powi(&x, 2) + DualNum::powi(&y, 2))), ComplexField::hypot(xf, yf), 4);
        fwd!("atan2", RealField::atan2(x.clone(), y.clone()), DualNum::atan2(&x, y.clone()), RealField::atan2(xf, yf), 0);
        fwd!("argument", ComplexField::argument(y.clone()), T::from(if yr >= 0.0 { f_of::<T>(0.0) } else { <T::F as RealField>::pi() }), ComplexField::argument(yf), 0);
        fwd!("signum", ComplexField::signum(y.clone()), y.clone() / Signed::abs(&y), ComplexField::signum(yf), 1);
        fwd!("to_polar.0", ComplexField::to_polar(y.clone()).0, Signed::abs(&y), ComplexField::to_polar(yf).0, 0);
        fwd!("to_polar.1", ComplexField::to_polar(y.clone()).1, ComplexField::argument(y.clone()), ComplexField::to_polar(yf).1, 0);
        fwd!("sinc", ComplexField::sinc(y.clone()), DualNum::sin(&y) / y.clone(), ComplexField::sinc(yf), 2);
        fwd!("sinhc", ComplexField::sinhc(y.clone()), DualNum::sinh(&y) / y.clone(), ComplexField::sinhc(yf), 2);
        fwd!("cosc", ComplexField::cosc(y.clone()), DualNum::cos(&y) / y.clone(), ComplexField::cosc(yf), 2);
        fwd!("coshc", ComplexField::coshc(y.clone()), DualNum::cosh(&y) / y.clone(), ComplexField::coshc(yf), 2);
        // try_sqrt / is_finite / sign predicates
        acc.observe(&format!("try_sqrt|{}", tname), true);
        let ts = ComplexField::try_sqrt(y.clone());
        let tf = ComplexField::try_sqrt(yf);
        let ok = match (&ts, &tf) {
            (Some(a), Some(_)) => eqv(&p(a), &p(&DualNum::sqrt(&y))),
            (None, None) => true,
            _ => false,
        };
        if !ok {
            acc.violate(format!("try_sqrt:{}", tname), format!("try_sqrt on {} at {:e}: Some/None or value differs from the float's / from sqrt", tname, yr), case());
        }
        // try_sqrt at the edge of its domain: tiny positive and tiny negative real parts
        {
            let tiny = if T::IS_F32 { [1e-8, 1e-30, 1e-45] } else { [1e-20, 1e-200, 5e-324] };
            // (exactly zero is left out: sqrt is not differentiable there and the dual types answer None
            // by design, whereas the float answers Some(0))
            let e0 = match ci % 6 {
                0 => tiny[0],
                1 => tiny[1],
                2 => tiny[2],
                3 => -tiny[2],
                4 => -tiny[1],
                _ => -tiny[0],
            };
            let e0 = if T::IS_F32 { e0 as f32 as f64 } else { e0 };
            let mut se = sy.clone();
            se[0] = e0;
            let ye: T = build_all(&shape, &se);
            let yef: T::F = f_of::<T>(e0);
            acc.observe(&format!("try_sqrt[edge]|{}|{:e}", tname, e0), true);
            let (a, bf) = (ComplexField::try_sqrt(ye.clone()), ComplexField::try_sqrt(yef));
            let ok = match (&a, &bf) {
                (Some(a), Some(bf)) => p(a)[0].to_bits() == fv(*bf).to_bits() || (p(a)[0] == fv(*bf)),
                (None, None) => true,
                _ => false,
            };
            if !ok {
                acc.violate(format!("try_sqrt-edge:{}", tname), format!("try_sqrt on {} at real part {:e}: {} but the float gives {}", tname, e0, if a.is_some() { "Some" } else { "None" }, if bf.is_some() { "Some" } else { "None" }), json!({"type": tname, "real_part": e0}));
            }
        }
        acc.observe(&format!("predicates|{}", tname), true);
        if ComplexField::is_finite(&y) != ComplexField::is_finite(&yf) || RealField::is_sign_positive(&y) != RealField::is_sign_positive(&yf) || RealField::is_sign_negative(&y) != RealField::is_sign_negative(&yf) {
            acc.violate(format!("predicates:{}", tname), format!("is_finite / is_sign_* on {} at {:e} differ from the float's", tname, yr), case());
        }
        // the same predicates when derivative parts are infinite or NaN: still the real part's answer
        {
            let mut sn = sy.clone();
            for (k, v) in sn.iter_mut().enumerate().skip(1) {
                *v = match (k + ci as usize) % 3 {
                    0 => f64::INFINITY,
                    1 => f64::NAN,
                    _ => f64::NEG_INFINITY,
                };
            }
            let yn: T = build_all(&shape, &sn);
            acc.observe(&format!("predicates[non-finite derivative parts]|{}", tname), true);
            if ComplexField::is_finite(&yn) != ComplexField::is_finite(&yf) || RealField::is_sign_positive(&yn) != RealField::is_sign_positive(&yf) || RealField::is_sign_negative(&yn) != RealField::is_sign_negative(&yf) {
                acc.violate(format!("predicates-nonfinite-parts:{}", tname), format!("is_finite / is_sign_* on {} at {:e} with infinite / NaN derivative parts differ from the float's ({}, {}, {})", tname, yr, ComplexField::is_finite(&yn), RealField::is_sign_positive(&yn), RealField::is_sign_negative(&yn)), case());
            }
        }
        // model check of the composite methods (hypot, log with dual base, powf with dual exponent)
        {
            let (tx, ty) = (Tr::exact(Jet::from_slots(&b, &sx), &b), Tr::exact(Jet::from_slots(&b, &sy), &b));
            let m = tx.mul(&tx, &b).add(&ty.mul(&ty, &b)).func(Func::Sqrt, &b);
            let (want, mag) = m.slots(&b);
            let g = p(&ComplexField::hypot(x.clone(), y.clone()));
            acc.observe(&format!("model:hypot|{}", tname), true);
            for s in 0..g.len() {
                if !((g[s] - want[s]).abs() <= K * u * mag[s]) {
                    acc.violate(format!("model:hypot:{}", tname), format!("hypot on {} part {}: {:e}, model {:e}", tname, s, g[s], want[s]), case());
                    break;
                }
            }
        }
        // hypot with one argument whose real part is exactly zero but whose derivative parts are not
        // (its square still contributes y'^2/|x| to the second-order parts)
        {
            let mut s0 = gen_slots(&mut rng, &b, 1.0, 0, T::IS_F32);
            s0[0] = if rng.bool() { 0.0 } else { -0.0 };
            let y0: T = build_all(&shape, &s0);
            let (tx, ty) = (Tr::exact(Jet::from_slots(&b, &sx), &b), Tr::exact(Jet::from_slots(&b, &s0), &b));
            let m = tx.mul(&tx, &b).add(&ty.mul(&ty, &b)).func(Func::Sqrt, &b);
            let (want, mag) = m.slots(&b);
            for (which, g) in [("second", p(&ComplexField::hypot(x.clone(), y0.clone()))), ("first", p(&ComplexField::hypot(y0.clone(), x.clone())))] {
                acc.observe(&format!("model:hypot[zero-real {} argument]|{}", which, tname), true);
                for s in 0..g.len() {
                    if !((g[s] - want[s]).abs() <= K * u * mag[s]) {
                        acc.violate(format!("model:hypot-zero-real:{}", tname), format!("hypot on {} with a zero real part in the {} argument, part {}: {:e}, model {:e}", tname, which, s, g[s], want[s]), json!({"type": tname, "shape": shape.name(), "x": floats(&sx), "y": floats(&s0)}));
                        break;
                    }
                }
            }
        }
        // ---------------------------------------------------------------- (4) selections
        let signs = [1.0, -1.0, 0.0, -0.0];
        let sr = *rng.choose(&signs) * rng.logu(0.5, 2.0);
        let mut ssl = gen_slots(&mut rng, &b, sr as f32 as f64, 0, T::IS_F32);
        ssl[0] = sr as f32 as f64;
        let sgn: T = build_all(&shape, &ssl);
        let sgnf: T::F = f_of::<T>(ssl[0]);
        acc.observe(&format!("sel:copysign|{}|{}", tname, if ssl[0].is_sign_negative() { if ssl[0] == 0.0 { "-0" } else { "neg" } } else if ssl[0] == 0.0 { "+0" } else { "pos" }), true);
        {
            let g = p(&RealField::copysign(y.clone(), sgn.clone()));
            let w = fv(RealField::copysign(yf, sgnf));
            let plus = p(&Signed::abs(&y));
            let minus = p(&-Signed::abs(&y));
            if g[0].to_bits() != w.to_bits() || !(eqv(&g, &plus) || eqv(&g, &minus)) {
                acc.violate(format!("sel:copysign:{}", tname), format!("copysign({:e}, {:e}) on {}: parts {:?}; float gives {:e}; must be +-|x| with its own parts", yr, ssl[0], tname, g, w), case());
            }
        }
        let tie = rng.chance(0.2);
        let y2: T = if tie {
            let mut s2 = gen_slots(&mut rng, &b, yr, 0, T::IS_F32);
            s2[0] = yr;
            build_all(&shape, &s2)
        } else {
            z.clone()
        };
        let y2f = if tie { yf } else { zf };
        for (nm, g, w) in [
            ("max", RealField::max(y.clone(), y2.clone()), RealField::max(yf, y2f)),
            ("min", RealField::min(y.clone(), y2.clone()), RealField::min(yf, y2f)),
        ] {
            acc.observe(&format!("sel:{}|{}|{}", nm, tname, if tie { "tie" } else { "distinct" }), true);
            let g = p(&g);
            if g[0] != fv(w) || !(eqv(&g, &p(&y)) || eqv(&g, &p(&y2))) {
                acc.violate(format!("sel:{}:{}", nm, tname), format!("{} on {} of real parts {:e}, {:e}: result {:?} is not the selected operand with its own parts (float selects {:e})", nm, tname, yr, if tie { yr } else { zr }, g, fv(w)), case());
            }
        }
        {
            let (lo, hi, lof, hif) = if yr <= zr { (y.clone(), z.clone(), yf, zf) } else { (z.clone(), y.clone(), zf, yf) };
            let g = p(&RealField::clamp(x.clone(), lo.clone(), hi.clone()));
            let w = fv(RealField::clamp(xf, lof, hif));
            acc.observe(&format!("sel:clamp|{}", tname), true);
            if g[0] != w || !(eqv(&g, &p(&x)) || eqv(&g, &p(&lo)) || eqv(&g, &p(&hi))) {
                acc.violate(format!("sel:clamp:{}", tname), format!("clamp on {}: result {:?} is not one of the operands with its own parts (float gives {:e})", tname, g, w), case());
            }
        }
        {
            // clamp with the value exactly on a bound: the float evaluation does not clamp (`x < lo` and
            // `x > hi` are both false), so the result is x itself with its own derivative parts
            let (lo0, hi0) = if yr <= zr { (yr, zr) } else { (zr, yr) };
            if lo0 < hi0 {
                let on_lower = ci % 2 == 0;
                let mut sx2 = sx.clone();
                sx2[0] = if on_lower { lo0 } else { hi0 };
                let xt: T = build_all(&shape, &sx2);
                let (lo, hi) = if yr <= zr { (y.clone(), z.clone()) } else { (z.clone(), y.clone()) };
                let g = p(&RealField::clamp(xt.clone(), lo, hi));
                acc.observe(&format!("sel:clamp-on-{}-bound|{}", if on_lower { "lower" } else { "upper" }, tname), true);
                if !eqv(&g, &p(&xt)) {
                    acc.violate(format!("sel:clamp-tie:{}", tname), format!("clamp on {} with the real part exactly on the {} bound: result {:?}, the unclamped operand is {:?}", tname, if on_lower { "lower" } else { "upper" }, g, p(&xt)), case());
                }
            }
            // clamp with a NaN among value and bounds: the float evaluation (`x < lo`, `x > hi`, both false
            // for NaN) decides which operand comes back, with its own derivative parts
            {
                let which = ci % 3;
                let (mut sv, mut sl, mut sh) = (sx.clone(), sy.clone(), sz.clone());
                if sl[0] > sh[0] {
                    std::mem::swap(&mut sl, &mut sh);
                }
                match which {
                    0 => sv[0] = f64::NAN,
                    1 => sl[0] = f64::NAN,
                    _ => sh[0] = f64::NAN,
                }
                let (xv, lo, hi): (T, T, T) = (build_all(&shape, &sv), build_all(&shape, &sl), build_all(&shape, &sh));
                let (xvf, lof, hif): (T::F, T::F, T::F) = (f_of::<T>(sv[0]), f_of::<T>(sl[0]), f_of::<T>(sh[0]));
                let want = if xvf < lof { p(&lo) } else if xvf > hif { p(&hi) } else { p(&xv) };
                let g = p(&RealField::clamp(xv.clone(), lo.clone(), hi.clone()));
                let fl = fv(RealField::clamp(xvf, lof, hif));
                acc.observe(&format!("sel:clamp-with-NaN-{}|{}", ["value", "lower-bound", "upper-bound"][which as usize], tname), true);
                if !eqv(&g, &want) || !(g[0] == fl || (g[0].is_nan() && fl.is_nan())) {
                    acc.violate(format!("sel:clamp-nan:{}", tname), format!("clamp on {} with a NaN {}: result {:?}, the float evaluation selects {:?} (float result {:e})", tname, ["value", "lower bound", "upper bound"][which as usize], g, want, fl), json!({"type": tname, "value": floats(&sv), "lo": floats(&sl), "hi": floats(&sh)}));
                }
            }
            // argument / to_polar / abs / signum style methods at a real part of exactly +0 and -0
            for z0 in [0.0f64, -0.0, f64::NAN] {
                let mut s0 = sx.clone();
                s0[0] = z0;
                let x0: T = build_all(&shape, &s0);
                let x0f: T::F = f_of::<T>(z0);
                acc.observe(&format!("argument-at-{}|{}", if z0.is_nan() { "NaN" } else if z0.is_sign_negative() { "-0" } else { "+0" }, tname), true);
                let (ga, fa) = (p(&ComplexField::argument(x0.clone())), fv(ComplexField::argument(x0f)));
                let (gp, fp) = (p(&ComplexField::to_polar(x0.clone()).1), fv(ComplexField::to_polar(x0f).1));
                // ComplexField::signum (used by nalgebra's eigen solvers for their shift): the float's value
                let (gs, fs) = (p(&ComplexField::signum(x0.clone())), fv(ComplexField::signum(x0f)));
                // (at -0.0 the float says -1 by its sign bit while the dual types say +1 through `self >= 0`:
                // a convention at the discontinuity, not judged; what matters to callers is a unit sign)
                let sign_ok = if z0.is_nan() { true } else if z0.is_sign_negative() { gs[0].abs() == 1.0 } else { gs[0] == fs };
                if !sign_ok {
                    acc.violate(format!("signum-at-zero:{}", tname), format!("ComplexField::signum on {} at real part {:?}: real part {:e}, the float gives {:e}", tname, z0, gs[0], fs), json!({"type": tname, "real_part": format!("{:?}", z0)}));
                }
                if ga[0].to_bits() != fa.to_bits() || gp[0].to_bits() != fp.to_bits() || ga[1..].iter().any(|v| *v != 0.0) {
                    acc.violate(format!("argument-at-zero:{}", tname), format!("argument / to_polar on {} at real part {:?}: {:?} / {:?}, the float gives {:e} / {:e}", tname, z0, ga, gp, fa, fp), json!({"type": tname, "real_part": format!("{:?}", z0)}));
                }
            }
        }
        // ---------------------------------------------------------------- (5) single-lane SIMD view
        {
            acc.observe(&format!("simd|{}|{}", tname, STYLES[style]), true);
            let spl = <T as SimdValue>::splat(x.clone());
            let ext = x.extract(0);
            let extu = unsafe { x.extract_unchecked(0) };
            let mut r = x.clone();
            r.replace(0, y.clone());
            let mut ru = x.clone();
            unsafe { ru.replace_unchecked(0, y.clone()) };
            // replacing by a constant (absent parts) must clear the derivative parts
            let cst = T::from(f_of::<T>(yr));
            let mut rc = x.clone();
            rc.replace(0, cst.clone());
            let mut cr = cst.clone();
            cr.replace(0, x.clone());
            let st = x.clone().select(true, y.clone());
            let sf = x.clone().select(false, y.clone());
            let checks: [(&str, Vec<f64>, Vec<f64>); 10] = [
                ("splat", p(&spl), p(&x)),
                ("extract(0)", p(&ext), p(&x)),
                ("extract_unchecked(0)", p(&extu), p(&x)),
                ("replace(0,v).extract(0)", p(&r.extract(0)), p(&y)),
                ("replace_unchecked(0,v)", p(&ru), p(&y)),
                ("replace(0,constant)", p(&rc), p(&cst)),
                ("constant.replace(0,v)", p(&cr), p(&x)),
                ("select(true)", p(&st), p(&x)),
                ("select(false)", p(&sf), p(&y)),
                ("splat.extract", p(&<T as SimdValue>::splat(z.clone()).extract(0)), p(&z)),
            ];
            for (nm, g, w) in checks {
                if !eqv(&g, &w) {
                    acc.violate(format!("simd:{}:{}", nm, tname), format!("SimdValue {} on {}: {:?} expected {:?}", nm, tname, g, w), case());
                }
            }
        }
        if ci == 0 && tindex % 4 == 0 {
            acc.sample(|| json!({"type": tname, "x": floats(&sx), "y": floats(&sy), "hypot": floats(&p(&ComplexField::hypot(x.clone(), y.clone()))), "max(y,z)": floats(&p(&RealField::max(y.clone(), z.clone())))}));
        }
    }
    acc
}

fn main() {
    let ctx = Ctx::from_args("C11");
    let acc = ctx.parallel(|shard, nshards| {
        let mut acc = Acc::new();
        let mut t = 0u64;
        macro_rules! go {
            ($ty:ty, $name:expr) => {
                t += 1;
                acc.merge(check_type::<$ty>($name, &ctx, shard, nshards, t));
            };
        }
        go!(Dual64, "Dual64");
        go!(Dual32, "Dual32");
        go!(Dual2_64, "Dual2_64");
        go!(Dual2_32, "Dual2_32");
        go!(DualSVec64<1>, "DualSVec64<1>");
        go!(DualSVec64<2>, "DualSVec64<2>");
        go!(DualSVec64<3>, "DualSVec64<3>");
        go!(DualSVec64<4>, "DualSVec64<4>");
        go!(DualSVec32<2>, "DualSVec32<2>");
        go!(DualDVec64, "DualDVec64");
        go!(DualDVec32, "DualDVec32");
        go!(Dual2SVec64<1>, "Dual2SVec64<1>");
        go!(Dual2SVec64<2>, "Dual2SVec64<2>");
        go!(Dual2SVec64<3>, "Dual2SVec64<3>");
        go!(Dual2SVec64<4>, "Dual2SVec64<4>");
        go!(Dual2SVec32<2>, "Dual2SVec32<2>");
        go!(Dual2DVec64, "Dual2DVec64");
        go!(Dual2DVec32, "Dual2DVec32");
        let _ = t;
        acc
    });
    let methods: std::collections::BTreeSet<String> = acc.classes.keys().map(|k| k.split('|').next().unwrap().to_string()).collect();
    let mut extra = serde_json::Map::new();
    extra.insert("methods_observed".into(), json!(methods));
    let required = vec![(format!("at least 70 distinct constants/methods/monitors observed (seen {})", methods.len()), methods.len() >= 70)];
    ctx.finish(
        acc,
        "class = (constant | method | selection | SIMD operation, type [, case]); every class is non-trivial (operands carry independent non-unit parts, optional parts absent by a random mask). Methods: all 17 RealField constants, 50 ComplexField/RealField methods (panicking-by-design floor/ceil/round/trunc/fract excluded), copysign/min/max/clamp with ties and signed zeros, try_sqrt, predicates, and the single-lane SimdValue view (splat, extract, replace, select, unchecked variants, replacing by / into a constant).",
        &["forwarding compared bitwise with the generic operation the method documents; real part within 0 ulp of the float method for single float operations, a few ulp for quotients/powers (stated per method)", "hypot additionally against the reference model (K=32)"],
        extra,
        &required,
    );
}
