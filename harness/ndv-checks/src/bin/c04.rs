//! C04 — all number types, nestings and storage variants agree on shared derivatives.
//! Differential monitor: one program and point are evaluated through every type of the zoo under a
//! random seeding (which input each infinitesimal differentiates). Every part of every result is a
//! partial derivative identified by the multiset of input indices of its monomial; all values
//! obtained for the same partial derivative must agree within the sum of the routes' bounds.

use ndv_core::evidence::{floats, guarded, Acc, Ctx};
use ndv_core::jetty::*;
use ndv_core::model::Jet;
use ndv_core::program::{generate, GenCfg};
use ndv_core::track::Tr;
use ndv_core::zoo::*;
use ndv_core::{Basis, Rng, Shape};
use num_dual::DualNum;
use num_traits::FloatConst;
use serde_json::json;
use std::collections::BTreeMap;

const K: f64 = 32.0;

#[derive(Clone, Debug)]
struct Obs {
    val: f64,
    tol: f64,
    tname: String,
    seed: Vec<usize>,
    slot: usize,
    f32: bool,
}

type Table = BTreeMap<Vec<u8>, Vec<Obs>>;

fn route<T>(
    tname: &str,
    prog: &ndv_core::program::Program,
    x: &[f64],
    rng: &mut Rng,
    dynd: (usize, usize),
    table: &mut Table,
    acc: &mut Acc,
    raw: &mut BTreeMap<String, (Vec<usize>, Vec<f64>)>,
) where
    T: Jetty + FloatConst + for<'a> std::iter::Sum<&'a T> + for<'a> std::iter::Product<&'a T>,
{
    let shape = T::shape(dynd);
    let b = Basis::new(&shape);
    // NDERIV is the sum over the levels and the highest total degree of the monomial set
    acc.observe(&format!("NDERIV|{}", tname), shape.depth() >= 2);
    if <T as DualNum<T::F>>::NDERIV != shape.order() || b.max_deg != shape.order() {
        acc.violate(
            format!("NDERIV:{}", tname),
            format!("{}: NDERIV = {}, sum of level orders = {}, model degree = {}", tname, <T as DualNum<T::F>>::NDERIV, shape.order(), b.max_deg),
            json!({"type": tname}),
        );
    }
    if b.nvars == 0 {
        return;
    }
    let n = x.len();
    let u = unit_roundoff::<T>();
    ndv_core::track::set_u(u);
    // seeding: variable v of the type differentiates input seed[v]
    let mode = rng.below(3);
    let seed: Vec<usize> = (0..b.nvars)
        .map(|v| match mode {
            0 => rng.below(n),
            1 => v % n,
            _ => 0,
        })
        .collect();
    let mut slots: Vec<Vec<f64>> = x.iter().map(|x0| {
        let mut s = vec![0.0; b.nslots()];
        s[0] = *x0;
        s
    }).collect();
    for (s_idx, &m) in b.slot_mono.iter().enumerate() {
        if b.deg[m] == 1 {
            let v = b.monos[m].iter().position(|&e| e == 1).unwrap();
            slots[seed[v]][s_idx] = 1.0;
        }
    }
    let mask = rng.next_u64();
    let inputs: Vec<T> = slots.iter().map(|s| build_with(&shape, s, &mut MaskAbsent::new(mask))).collect();
    let out = match guarded(|| prog.eval::<T>(&inputs)) {
        Ok(v) => v,
        Err(msg) => {
            acc.violate(format!("panic:{}", tname), format!("program on {} panicked: {}", tname, msg), json!({"type": tname, "program": prog.to_json(), "x": floats(x)}));
            return;
        }
    };
    let got = parts(out.last().unwrap(), &shape);
    let tr_in: Vec<Tr> = slots.iter().map(|s| Tr::exact(Jet::from_slots(&b, s), &b)).collect();
    let model = prog.eval_model(&tr_in, &b, T::IS_F32);
    let (_, mag) = model.last().unwrap().slots(&b);
    for s in 0..got.len() {
        let m = b.slot_mono[s];
        let mut key: Vec<u8> = Vec::new();
        for (v, &e) in b.monos[m].iter().enumerate() {
            for _ in 0..e {
                key.push(seed[v] as u8);
            }
        }
        key.sort();
        table.entry(key).or_default().push(Obs {
            val: got[s],
            // absolute floor: parts in the subnormal range of f32 lose relative accuracy
            tol: K * u * mag[s] + if T::IS_F32 { 1e-30 } else { 1e-290 },
            tname: tname.to_string(),
            seed: seed.clone(),
            slot: s,
            f32: T::IS_F32,
        });
    }
    raw.insert(format!("{}@{:?}", tname, shape_dims(&shape)), (seed, got));
}

fn shape_dims(s: &Shape) -> String {
    s.name()
}

fn main() {
    let ctx = Ctx::from_args("C04");
    ndv_checks::warm_up_f32();
    let ncases = ctx.n(3000, 600000);
    let acc = ctx.parallel(|shard, nshards| {
        let mut acc = Acc::new();
        for ci in 0..ncases {
            if ci % nshards as u64 != shard as u64 {
                continue;
            }
            let mut rng = Rng::stream(ctx.seed, 4, ci);
            let n = 1 + rng.below(3);
            let x: Vec<f64> = (0..n)
                .map(|_| {
                    let v = match rng.below(3) {
                        0 => rng.range(0.2, 2.0),
                        1 => rng.range(-2.0, -0.2),
                        _ => rng.range(0.05, 0.9),
                    };
                    v as f32 as f64
                })
                .collect();
            // one case in eight far from the unit scale (inside the f32 range, since every program
            // also runs on the 32-bit types)
            let x: Vec<f64> = if ci % 8 == 5 { x.iter().map(|v| (v * (10.0f64).powi(rng.int(-4, 4) as i32)) as f32 as f64).collect() } else { x };
            let cfg = GenCfg { max_nodes: 4 + rng.below(20), ninputs: n, f32: true, selects: false, allow_sph: true };
            let (prog, vals) = generate(&mut rng, &cfg, &x);
            let _ = vals;
            let dynd = (1 + rng.below(6), 1 + rng.below(3));
            let mut table: Table = BTreeMap::new();
            let mut raw: BTreeMap<String, (Vec<usize>, Vec<f64>)> = BTreeMap::new();
            macro_rules! go {
                ($ty:ty, $name:expr) => {
                    // two independent seedings per type
                    route::<$ty>($name, &prog, &x, &mut rng, dynd, &mut table, &mut acc, &mut raw);
                    route::<$ty>($name, &prog, &x, &mut rng, dynd, &mut table, &mut acc, &mut raw);
                };
            }
            ndv_core::zoo_all!(go);
            go!(ndv_core::zoo::DD32, "Dual<Dual32>");
            go!(ndv_core::zoo::D2D32, "Dual2<Dual32>");
            go!(ndv_core::zoo::DD3_64, "Dual<Dual3_64>");
            go!(ndv_core::zoo::DHD64, "Dual<HyperDual64>");
            go!(DualSVec64<4>, "DualSVec64<4>");
            go!(DualSVec64<6>, "DualSVec64<6>");
            go!(Dual2SVec64<4>, "Dual2SVec64<4>");
            go!(Dual2SVec64<5>, "Dual2SVec64<5>");
            go!(Dual2SVec64<6>, "Dual2SVec64<6>");
            go!(HyperDualSVec64<1, 3>, "HyperDualSVec64<1,3>");
            go!(HyperDualSVec64<3, 1>, "HyperDualSVec64<3,1>");
            go!(HyperDualSVec64<2, 2>, "HyperDualSVec64<2,2>");
            go!(HyperDualSVec64<3, 3>, "HyperDualSVec64<3,3>");
            go!(HyperDualSVec64<5, 1>, "HyperDualSVec64<5,1>");
            go!(HyperDualSVec64<1, 5>, "HyperDualSVec64<1,5>");
            // static vs dynamic storage with the same seeding: dedicated pass (bitwise)
            static_dynamic(&prog, &x, &mut rng, &mut acc);
            // agreement per partial derivative
            for (key, obs) in &table {
                if obs.len() < 2 {
                    continue;
                }
                // reference: the f64 observation with the smallest tolerance
                let r = obs.iter().filter(|o| !o.f32).min_by(|a, b| a.tol.partial_cmp(&b.tol).unwrap()).unwrap_or(&obs[0]);
                let distinct_types: std::collections::BTreeSet<&str> = obs.iter().map(|o| o.tname.as_str()).collect();
                let order = key.len();
                let mixed = key.windows(2).any(|w| w[0] != w[1]);
                for o in obs {
                    if std::ptr::eq(o, r) {
                        continue;
                    }
                    let class = format!("agree|order{}{}|{}|vs|{}", order, if mixed { "-mixed" } else { "" }, o.tname, r.tname);
                    acc.observe(&class, order >= 1 && o.tname != r.tname);
                    if !(r.val.is_finite() && r.tol.is_finite() && o.tol.is_finite()) {
                        acc.count("skipped_nonfinite", 1);
                        continue;
                    }
                    let tol = o.tol + r.tol;
                    if tol > 1e-3 * (1.0 + r.val.abs()) {
                        acc.count("skipped_ill_conditioned", 1);
                        continue;
                    }
                    let d = (o.val - r.val).abs();
                    if !(o.val.is_finite() && d <= tol) {
                        acc.violate(
                            format!("disagree:{}:order{}", o.tname, order),
                            format!(
                                "d^{}f/dx{:?}: {} (seeding {:?}, part {}) = {:e} but {} (seeding {:?}, part {}) = {:e}; |diff| = {:.3e} > {:.3e}",
                                order, key, o.tname, o.seed, o.slot, o.val, r.tname, r.seed, r.slot, r.val, d, tol
                            ),
                            json!({"program": prog.to_json(), "x": floats(&x), "derivative_wrt_inputs": key, "a": {"type": o.tname, "seeding": o.seed, "slot": o.slot, "value": o.val}, "b": {"type": r.tname, "seeding": r.seed, "slot": r.slot, "value": r.val}, "dyn_dims": [dynd.0, dynd.1]}),
                        );
                    } else if tol > 0.0 {
                        acc.ratio(K * d / tol, || format!("{} vs {}", o.tname, r.tname));
                    }
                }
                acc.maxi("max_types_agreeing_on_one_derivative", distinct_types.len() as f64);
            }
            if ci < 3 {
                acc.sample(|| {
                    let k3: Vec<_> = table.iter().filter(|(k, _)| k.len() == 3).take(1).map(|(k, o)| json!({"wrt": k, "values": o.iter().take(6).map(|o| json!({"type": o.tname, "value": o.val})).collect::<Vec<_>>()})).collect();
                    json!({"program": prog.to_json(), "x": floats(&x), "third_order_example": k3})
                });
            }
            acc.count("programs", 1);
        }
        acc
    });
    let pairs = acc.classes.keys().filter(|k| k.starts_with("agree|")).count();
    let bitwise_total = *acc.counters.get("static_vs_dynamic_compared").unwrap_or(&0);
    let bitwise_same = *acc.counters.get("static_vs_dynamic_bit_identical").unwrap_or(&0);
    let mut extra = serde_json::Map::new();
    extra.insert("K".into(), json!(K));
    extra.insert("static_vs_dynamic_bit_identical_fraction".into(), json!(if bitwise_total > 0 { bitwise_same as f64 / bitwise_total as f64 } else { 0.0 }));
    let o3 = acc.classes.keys().filter(|k| k.starts_with("agree|order3")).count();
    let required = vec![
        (format!("at least 300 distinct (order, type, reference type) agreement classes (seen {})", pairs), pairs >= 300),
        (format!("third-order agreement classes observed (seen {})", o3), o3 >= 10),
        ("static vs dynamic comparisons made".to_string(), bitwise_total >= 100),
    ];
    ctx.finish(
        acc,
        "one evaluation = one (partial derivative, type) value compared with the reference value of the same partial derivative obtained through another type/seeding; class = (derivative order [mixed or not], type, reference type); non-trivial = order >= 1 and the two types differ. Each program is run through 60 types x 2 random seedings (which input each infinitesimal differentiates), so first/second/third and mixed partials are obtained through Dual3, nested Dual<Dual<Dual>>, Dual<Dual2>, Dual2<Dual>, HyperHyperDual, Dual2, Dual2Vec, HyperDual, HyperDualVec, DualVec, static and dynamic, f32 and f64.",
        &["tolerance = K*(u_a*e_a + u_b*e_b) with e the tracked first-order bound of each route (K=32); derivatives whose bound exceeds 1e-3 relative are skipped and counted", "f32 routes are compared with their own unit roundoff 2^-24"],
        extra,
        &required,
    );
}

/// the same seeding through the statically and the dynamically sized variant: results must be
/// within the bound (checked by the table above) and are expected to be bit-identical
fn static_dynamic(prog: &ndv_core::program::Program, x: &[f64], rng: &mut Rng, acc: &mut Acc) {
    fn run<T>(prog: &ndv_core::program::Program, x: &[f64], seed: &[usize], dynd: (usize, usize)) -> Option<Vec<f64>>
    where
        T: Jetty + FloatConst + for<'a> std::iter::Sum<&'a T> + for<'a> std::iter::Product<&'a T>,
    {
        let shape = T::shape(dynd);
        let b = Basis::new(&shape);
        let mut slots: Vec<Vec<f64>> = x.iter().map(|x0| {
            let mut s = vec![0.0; b.nslots()];
            s[0] = *x0;
            s
        }).collect();
        for (s_idx, &m) in b.slot_mono.iter().enumerate() {
            if b.deg[m] == 1 {
                let v = b.monos[m].iter().position(|&e| e == 1).unwrap();
                slots[seed[v]][s_idx] = 1.0;
            }
        }
        let inputs: Vec<T> = slots.iter().map(|s| build_with(&shape, s, &mut ZeroAbsent)).collect();
        guarded(|| prog.eval::<T>(&inputs)).ok().map(|o| parts(o.last().unwrap(), &shape))
    }
    let n = x.len();
    macro_rules! pair {
        ($s:ty, $d:ty, $dims:expr, $nv:expr, $name:expr) => {{
            let seed: Vec<usize> = (0..$nv).map(|_| rng.below(n)).collect();
            let a = run::<$s>(prog, x, &seed, $dims);
            let b = run::<$d>(prog, x, &seed, $dims);
            if let (Some(a), Some(b)) = (a, b) {
                acc.count("static_vs_dynamic_compared", 1);
                acc.observe(&format!("static-vs-dynamic|{}", $name), true);
                if a.len() == b.len() && a.iter().zip(&b).all(|(p, q)| p.to_bits() == q.to_bits() || (p.is_nan() && q.is_nan())) {
                    acc.count("static_vs_dynamic_bit_identical", 1);
                } else if a.len() != b.len() || a.iter().zip(&b).any(|(p, q)| (p - q).abs() > 1e-9 * (1.0 + p.abs())) {
                    acc.violate(
                        format!("static-vs-dynamic:{}", $name),
                        format!("{}: static and dynamic variants differ: {:?} vs {:?}", $name, a, b),
                        json!({"program": prog.to_json(), "x": floats(x), "seeding": seed, "pair": $name}),
                    );
                } else {
                    acc.count("static_vs_dynamic_differs_in_rounding", 1);
                }
            }
        }};
    }
    pair!(DualSVec64<1>, DualDVec64, (1, 1), 1, "DualVec<1>");
    pair!(DualSVec64<2>, DualDVec64, (2, 1), 2, "DualVec<2>");
    pair!(DualSVec64<3>, DualDVec64, (3, 1), 3, "DualVec<3>");
    pair!(DualSVec64<4>, DualDVec64, (4, 1), 4, "DualVec<4>");
    pair!(DualSVec64<5>, DualDVec64, (5, 1), 5, "DualVec<5>");
    pair!(DualSVec64<6>, DualDVec64, (6, 1), 6, "DualVec<6>");
    pair!(Dual2SVec64<1>, Dual2DVec64, (1, 1), 1, "Dual2Vec<1>");
    pair!(Dual2SVec64<2>, Dual2DVec64, (2, 1), 2, "Dual2Vec<2>");
    pair!(Dual2SVec64<3>, Dual2DVec64, (3, 1), 3, "Dual2Vec<3>");
    pair!(Dual2SVec64<4>, Dual2DVec64, (4, 1), 4, "Dual2Vec<4>");
    pair!(Dual2SVec64<6>, Dual2DVec64, (6, 1), 6, "Dual2Vec<6>");
    pair!(HyperDualSVec64<1, 1>, HyperDualDVec64, (1, 1), 2, "HyperDualVec<1,1>");
    pair!(HyperDualSVec64<2, 3>, HyperDualDVec64, (2, 3), 5, "HyperDualVec<2,3>");
    pair!(HyperDualSVec64<3, 2>, HyperDualDVec64, (3, 2), 5, "HyperDualVec<3,2>");
    pair!(HyperDualSVec64<3, 3>, HyperDualDVec64, (3, 3), 6, "HyperDualVec<3,3>");
    pair!(DualSVec32<2>, DualDVec32, (2, 1), 2, "DualVec32<2>");
    pair!(Dual2SVec32<2>, Dual2DVec32, (2, 1), 2, "Dual2Vec32<2>");
    pair!(HyperDualSVec32<2, 2>, HyperDualDVec32, (2, 2), 4, "HyperDualVec32<2,2>");
}
