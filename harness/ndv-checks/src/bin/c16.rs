//! C16 — serialization round-trips every part of a dual number (feature `serde`).
//! Event-stream monitor: a recording `serde::Serializer` logs the exact call sequence of the
//! derived `Serialize` impl (struct name, length, field keys in order, leaf bit patterns); the
//! stream is checked against the documented part names and the stored parts, then replayed through
//! a `Deserializer` (as a map with fields in original and in permuted order, and as a sequence)
//! and every part must be restored bit for bit. A real format (serde_json) round trip runs on
//! values the JSON text represents exactly.

use ndv_core::basis::{Kind, Shape};
use ndv_core::evidence::{guarded, hexes, Acc, Ctx};
use ndv_core::jetty::*;
use ndv_core::zoo::*;
use ndv_core::Rng;
use serde::de::{self, DeserializeOwned, DeserializeSeed, MapAccess, SeqAccess, Visitor};
use serde::ser::{self, Serialize, SerializeStruct};
use serde_json::json;

// ------------------------------------------------------------------ recorded event tree
#[derive(Clone, Debug, PartialEq)]
enum Rec {
    F64(u64),
    F32(u32),
    Struct { name: &'static str, len: usize, fields: Vec<(&'static str, Rec)>, skipped: Vec<&'static str> },
    Other(String),
}

#[derive(Debug)]
struct RecErr(String);
impl std::fmt::Display for RecErr {
    fn fmt(&self, f: &mut std::fmt::Formatter) -> std::fmt::Result {
        write!(f, "{}", self.0)
    }
}
impl std::error::Error for RecErr {}
impl ser::Error for RecErr {
    fn custom<T: std::fmt::Display>(msg: T) -> Self {
        RecErr(msg.to_string())
    }
}
impl de::Error for RecErr {
    fn custom<T: std::fmt::Display>(msg: T) -> Self {
        RecErr(msg.to_string())
    }
}

struct Recorder;
struct StructRec {
    name: &'static str,
    len: usize,
    fields: Vec<(&'static str, Rec)>,
    skipped: Vec<&'static str>,
}
impl SerializeStruct for StructRec {
    type Ok = Rec;
    type Error = RecErr;
    fn serialize_field<T: ?Sized + Serialize>(&mut self, key: &'static str, value: &T) -> Result<(), RecErr> {
        let v = value.serialize(Recorder)?;
        self.fields.push((key, v));
        Ok(())
    }
    fn skip_field(&mut self, key: &'static str) -> Result<(), RecErr> {
        self.skipped.push(key);
        Ok(())
    }
    fn end(self) -> Result<Rec, RecErr> {
        Ok(Rec::Struct { name: self.name, len: self.len, fields: self.fields, skipped: self.skipped })
    }
}
macro_rules! other {
    ($($m:ident($t:ty)),*) => { $( fn $m(self, v: $t) -> Result<Rec, RecErr> { Ok(Rec::Other(format!("{}({:?})", stringify!($m), v))) } )* };
}
impl ser::Serializer for Recorder {
    type Ok = Rec;
    type Error = RecErr;
    type SerializeSeq = ser::Impossible<Rec, RecErr>;
    type SerializeTuple = ser::Impossible<Rec, RecErr>;
    type SerializeTupleStruct = ser::Impossible<Rec, RecErr>;
    type SerializeTupleVariant = ser::Impossible<Rec, RecErr>;
    type SerializeMap = ser::Impossible<Rec, RecErr>;
    type SerializeStruct = StructRec;
    type SerializeStructVariant = ser::Impossible<Rec, RecErr>;
    fn serialize_f64(self, v: f64) -> Result<Rec, RecErr> {
        Ok(Rec::F64(v.to_bits()))
    }
    fn serialize_f32(self, v: f32) -> Result<Rec, RecErr> {
        Ok(Rec::F32(v.to_bits()))
    }
    other!(serialize_bool(bool), serialize_i8(i8), serialize_i16(i16), serialize_i32(i32), serialize_i64(i64), serialize_u8(u8), serialize_u16(u16), serialize_u32(u32), serialize_u64(u64), serialize_char(char), serialize_str(&str), serialize_bytes(&[u8]));
    fn serialize_none(self) -> Result<Rec, RecErr> {
        Ok(Rec::Other("none".into()))
    }
    fn serialize_some<T: ?Sized + Serialize>(self, _v: &T) -> Result<Rec, RecErr> {
        Ok(Rec::Other("some".into()))
    }
    fn serialize_unit(self) -> Result<Rec, RecErr> {
        Ok(Rec::Other("unit".into()))
    }
    fn serialize_unit_struct(self, n: &'static str) -> Result<Rec, RecErr> {
        Ok(Rec::Other(format!("unit_struct({})", n)))
    }
    fn serialize_unit_variant(self, n: &'static str, _i: u32, v: &'static str) -> Result<Rec, RecErr> {
        Ok(Rec::Other(format!("unit_variant({}::{})", n, v)))
    }
    fn serialize_newtype_struct<T: ?Sized + Serialize>(self, n: &'static str, _v: &T) -> Result<Rec, RecErr> {
        Ok(Rec::Other(format!("newtype_struct({})", n)))
    }
    fn serialize_newtype_variant<T: ?Sized + Serialize>(self, n: &'static str, _i: u32, _v: &'static str, _x: &T) -> Result<Rec, RecErr> {
        Ok(Rec::Other(format!("newtype_variant({})", n)))
    }
    fn serialize_seq(self, _l: Option<usize>) -> Result<Self::SerializeSeq, RecErr> {
        Err(RecErr("unexpected seq".into()))
    }
    fn serialize_tuple(self, _l: usize) -> Result<Self::SerializeTuple, RecErr> {
        Err(RecErr("unexpected tuple".into()))
    }
    fn serialize_tuple_struct(self, _n: &'static str, _l: usize) -> Result<Self::SerializeTupleStruct, RecErr> {
        Err(RecErr("unexpected tuple struct".into()))
    }
    fn serialize_tuple_variant(self, _n: &'static str, _i: u32, _v: &'static str, _l: usize) -> Result<Self::SerializeTupleVariant, RecErr> {
        Err(RecErr("unexpected tuple variant".into()))
    }
    fn serialize_map(self, _l: Option<usize>) -> Result<Self::SerializeMap, RecErr> {
        Err(RecErr("unexpected map".into()))
    }
    fn serialize_struct(self, name: &'static str, len: usize) -> Result<StructRec, RecErr> {
        Ok(StructRec { name, len, fields: Vec::new(), skipped: Vec::new() })
    }
    fn serialize_struct_variant(self, _n: &'static str, _i: u32, _v: &'static str, _l: usize) -> Result<Self::SerializeStructVariant, RecErr> {
        Err(RecErr("unexpected struct variant".into()))
    }
}

// ------------------------------------------------------------------ replaying deserializer
#[derive(Clone, Copy, PartialEq, Debug)]
enum Mode {
    MapInOrder,
    MapPermuted(u64),
    Seq,
}
struct Replay<'a> {
    rec: &'a Rec,
    mode: Mode,
}
struct FieldsAccess<'a> {
    items: Vec<&'a (&'static str, Rec)>,
    pos: usize,
    mode: Mode,
}
impl<'de, 'a> MapAccess<'de> for FieldsAccess<'a> {
    type Error = RecErr;
    fn next_key_seed<K: DeserializeSeed<'de>>(&mut self, seed: K) -> Result<Option<K::Value>, RecErr> {
        if self.pos >= self.items.len() {
            return Ok(None);
        }
        let key = self.items[self.pos].0;
        seed.deserialize(de::value::StrDeserializer::<RecErr>::new(key)).map(Some)
    }
    fn next_value_seed<V: DeserializeSeed<'de>>(&mut self, seed: V) -> Result<V::Value, RecErr> {
        let r = &self.items[self.pos].1;
        self.pos += 1;
        seed.deserialize(Replay { rec: r, mode: self.mode })
    }
}
impl<'de, 'a> SeqAccess<'de> for FieldsAccess<'a> {
    type Error = RecErr;
    fn next_element_seed<T: DeserializeSeed<'de>>(&mut self, seed: T) -> Result<Option<T::Value>, RecErr> {
        if self.pos >= self.items.len() {
            return Ok(None);
        }
        let r = &self.items[self.pos].1;
        self.pos += 1;
        seed.deserialize(Replay { rec: r, mode: self.mode }).map(Some)
    }
}
impl<'de, 'a> de::Deserializer<'de> for Replay<'a> {
    type Error = RecErr;
    fn deserialize_any<V: Visitor<'de>>(self, visitor: V) -> Result<V::Value, RecErr> {
        match self.rec {
            Rec::F64(b) => visitor.visit_f64(f64::from_bits(*b)),
            Rec::F32(b) => visitor.visit_f32(f32::from_bits(*b)),
            Rec::Struct { fields, .. } => {
                let mut items: Vec<&(&'static str, Rec)> = fields.iter().collect();
                match self.mode {
                    Mode::MapInOrder => visitor.visit_map(FieldsAccess { items, pos: 0, mode: self.mode }),
                    Mode::MapPermuted(seed) => {
                        let mut r = Rng::new(seed ^ items.len() as u64);
                        r.shuffle(&mut items);
                        visitor.visit_map(FieldsAccess { items, pos: 0, mode: self.mode })
                    }
                    Mode::Seq => visitor.visit_seq(FieldsAccess { items, pos: 0, mode: self.mode }),
                }
            }
            Rec::Other(s) => Err(RecErr(format!("cannot replay {}", s))),
        }
    }
    serde::forward_to_deserialize_any! {
        bool i8 i16 i32 i64 i128 u8 u16 u32 u64 u128 f32 f64 char str string bytes byte_buf option unit unit_struct
        newtype_struct seq tuple tuple_struct map struct enum identifier ignored_any
    }
}

// ------------------------------------------------------------------ expectations
fn kind_names(k: &Kind) -> (&'static str, Vec<&'static str>) {
    match k {
        Kind::Dual => ("Dual", vec!["re", "eps"]),
        Kind::Dual2 => ("Dual2", vec!["re", "v1", "v2"]),
        Kind::Dual3 => ("Dual3", vec!["re", "v1", "v2", "v3"]),
        Kind::HyperDual => ("HyperDual", vec!["re", "eps1", "eps2", "eps1eps2"]),
        Kind::HyperHyperDual => ("HyperHyperDual", vec!["re", "eps1", "eps2", "eps3", "eps1eps2", "eps1eps3", "eps2eps3", "eps1eps2eps3"]),
        _ => ("?", vec![]),
    }
}

/// check the recorded stream against the shape; returns the leaves in order
fn check_stream(rec: &Rec, shape: &Shape, f32: bool, leaves: &mut Vec<f64>, problems: &mut Vec<String>) {
    match (rec, shape) {
        (Rec::F64(b), Shape::Leaf) if !f32 => leaves.push(f64::from_bits(*b)),
        (Rec::F32(b), Shape::Leaf) if f32 => leaves.push(f32::from_bits(*b) as f64),
        (Rec::Struct { name, len, fields, skipped }, Shape::Level(k, inner)) => {
            let (wname, wkeys) = kind_names(k);
            if *name != wname {
                problems.push(format!("struct name '{}' (expected '{}')", name, wname));
            }
            let keys: Vec<&str> = fields.iter().map(|(k, _)| *k).collect();
            if keys != wkeys {
                problems.push(format!("field keys {:?} (expected exactly {:?} in this order)", keys, wkeys));
            }
            if *len != wkeys.len() {
                problems.push(format!("declared length {} (expected {})", len, wkeys.len()));
            }
            if !skipped.is_empty() {
                problems.push(format!("skip_field called for {:?}", skipped));
            }
            for (_, r) in fields {
                check_stream(r, inner, f32, leaves, problems);
            }
        }
        (r, s) => problems.push(format!("unexpected event {:?} where {} was expected", r, s.name())),
    }
}

fn exotic(rng: &mut Rng, f32: bool) -> f64 {
    // arbitrary finite bit patterns: subnormals, -0.0, huge, tiny, integers, generic
    match rng.below(8) {
        0 => {
            if f32 {
                f32::from_bits(rng.next_u64() as u32 & 0x007f_ffff) as f64 * rng.sign()
            } else {
                f64::from_bits(rng.next_u64() & 0x000f_ffff_ffff_ffff) * rng.sign()
            }
        }
        1 => -0.0,
        2 => rng.sign() * if f32 { 3.0e38 } else { 1.7e308 } * rng.f01().max(0.1),
        3 => rng.int(-1000, 1000) as f64,
        4 => rng.sign() * if f32 { 1e-38 } else { 1e-300 },
        _ => loop {
            let v = if f32 { f32::from_bits(rng.next_u64() as u32) as f64 } else { f64::from_bits(rng.next_u64()) };
            if v.is_finite() {
                break v;
            }
        },
    }
}

fn check_type<T: Jetty + Serialize + DeserializeOwned>(tname: &str, ctx: &Ctx, shard: usize, nshards: usize, tindex: u64) -> Acc {
    let mut acc = Acc::new();
    let shape = T::shape((0, 0));
    let n = shape.nslots();
    let bits_eq = |a: &[f64], b: &[f64]| a.len() == b.len() && a.iter().zip(b).all(|(x, y)| x.to_bits() == y.to_bits());
    for ci in 0..ctx.n(300, 1000000) {
        if ci % nshards as u64 != shard as u64 {
            continue;
        }
        let mut rng = Rng::stream(ctx.seed, 1600 + tindex, ci);
        // distinct value per part, so that a swap or a drop cannot cancel
        let mut slots: Vec<f64> = Vec::with_capacity(n);
        while slots.len() < n {
            let v = if T::IS_F32 { exotic(&mut rng, true) as f32 as f64 } else { exotic(&mut rng, false) };
            if !slots.iter().any(|s: &f64| s.to_bits() == v.to_bits()) || v == 0.0 {
                slots.push(v);
            }
        }
        let x: T = build_all(&shape, &slots);
        let case = || json!({"type": tname, "parts_hex": hexes(&slots)});
        // ---- event stream of Serialize
        acc.observe(&format!("event-stream|{}", tname), true);
        let rec = match guarded(|| x.serialize(Recorder)) {
            Ok(Ok(r)) => r,
            Ok(Err(e)) => {
                acc.violate(format!("serialize:{}", tname), format!("Serialize on {} failed: {}", tname, e), case());
                continue;
            }
            Err(m) => {
                acc.violate(format!("serialize:{}:panic", tname), format!("Serialize on {} panicked: {}", tname, m), case());
                continue;
            }
        };
        let mut leaves = Vec::new();
        let mut problems = Vec::new();
        check_stream(&rec, &shape, T::IS_F32, &mut leaves, &mut problems);
        if !problems.is_empty() {
            acc.violate(format!("stream:{}", tname), format!("serialized form of {}: {}", tname, problems.join("; ")), case());
            continue;
        }
        if !bits_eq(&leaves, &slots) {
            acc.violate(format!("stream-values:{}", tname), format!("serialized values of {} are {:?} but the parts are {:?}", tname, leaves, slots), case());
            continue;
        }
        // ---- replay through Deserialize: map in order, map permuted, sequence
        for (mname, mode) in [("map", Mode::MapInOrder), ("map-permuted", Mode::MapPermuted(rng.next_u64())), ("seq", Mode::Seq)] {
            acc.observe(&format!("replay-{}|{}", mname, tname), true);
            match guarded(|| T::deserialize(Replay { rec: &rec, mode })) {
                Ok(Ok(y)) => {
                    let back = parts(&y, &shape);
                    if !bits_eq(&back, &slots) {
                        acc.violate(format!("replay-{}:{}", mname, tname), format!("{} deserialized from its own stream ({}) has parts {:?}, expected {:?}", tname, mname, back, slots), case());
                    }
                }
                Ok(Err(e)) => acc.violate(format!("replay-{}:{}", mname, tname), format!("Deserialize on {} ({}) failed: {}", tname, mname, e), case()),
                Err(m) => acc.violate(format!("replay-{}:{}:panic", mname, tname), format!("Deserialize on {} panicked: {}", tname, m), case()),
            }
        }
        // ---- a real format: JSON, on values whose text representation is exact
        let exact = slots.iter().all(|v| {
            if T::IS_F32 {
                let f = *v as f32;
                serde_json::to_string(&f).ok().and_then(|s| serde_json::from_str::<f32>(&s).ok()).map(|b| b.to_bits() == f.to_bits()).unwrap_or(false)
            } else {
                serde_json::to_string(v).ok().and_then(|s| serde_json::from_str::<f64>(&s).ok()).map(|b| b.to_bits() == v.to_bits()).unwrap_or(false)
            }
        });
        if !exact {
            acc.count("json_cases_skipped_value_not_exact_in_json", 1);
        } else {
            acc.observe(&format!("json|{}", tname), true);
            match guarded(|| serde_json::to_string(&x).map(|s| (serde_json::from_str::<T>(&s), s))) {
                Ok(Ok((Ok(y), s))) => {
                    let back = parts(&y, &shape);
                    if !bits_eq(&back, &slots) {
                        acc.violate(format!("json:{}", tname), format!("{} through JSON {} has parts {:?}, expected {:?}", tname, s, back, slots), case());
                    }
                    // key set of the outermost object
                    if let (Ok(serde_json::Value::Object(m)), Shape::Level(k, _)) = (serde_json::from_str::<serde_json::Value>(&s), &shape) {
                        let mut keys: Vec<&str> = m.keys().map(|k| k.as_str()).collect();
                        let mut want = kind_names(k).1;
                        keys.sort();
                        want.sort();
                        if keys != want {
                            acc.violate(format!("json-keys:{}", tname), format!("JSON of {} has keys {:?}, expected {:?}", tname, keys, want), case());
                        }
                    }
                    if ci == 0 {
                        acc.sample(|| json!({"type": tname, "json": s, "stream": format!("{:?}", rec)}));
                    }
                }
                Ok(Ok((Err(e), s))) => acc.violate(format!("json:{}", tname), format!("{}: JSON {} does not deserialize: {}", tname, s, e), case()),
                Ok(Err(e)) => acc.violate(format!("json:{}", tname), format!("{}: to_string failed: {}", tname, e), case()),
                Err(m) => acc.violate(format!("json:{}:panic", tname), format!("{}: JSON round trip panicked: {}", tname, m), case()),
            }
        }
    }
    acc
}

fn main() {
    let ctx = Ctx::from_args("C16");
    let acc = ctx.parallel(|shard, nshards| {
        let mut acc = Acc::new();
        let mut t = 0u64;
        macro_rules! go {
            ($ty:ty, $name:expr) => {
                t += 1;
                acc.merge(check_type::<$ty>($name, &ctx, shard, nshards, t));
            };
        }
        ndv_core::zoo_scalar64!(go);
        ndv_core::zoo_scalar32!(go);
        go!(ndv_core::zoo::DD64, "Dual<Dual64>");
        go!(ndv_core::zoo::DDD64, "Dual<Dual<Dual64>>");
        go!(ndv_core::zoo::D2D64, "Dual2<Dual64>");
        go!(ndv_core::zoo::DD2_64, "Dual<Dual2_64>");
        go!(ndv_core::zoo::D2D2_64, "Dual2<Dual2_64>");
        go!(ndv_core::zoo::D3D64, "Dual3<Dual64>");
        go!(ndv_core::zoo::D3D2_64, "Dual3<Dual2_64>");
        go!(ndv_core::zoo::HDD64, "HyperDual<Dual64>");
        go!(ndv_core::zoo::HDHD64, "HyperDual<HyperDual64>");
        go!(ndv_core::zoo::HHDD64, "HyperHyperDual<Dual64>");
        go!(ndv_core::zoo::DHD64, "Dual<HyperDual64>");
        go!(ndv_core::zoo::DD32, "Dual<Dual32>");
        go!(ndv_core::zoo::D2D32, "Dual2<Dual32>");
        go!(Dual<HyperHyperDual32, f32>, "Dual<HyperHyperDual32>");
        let _ = t;
        acc
    });
    let types: std::collections::BTreeSet<String> = acc.classes.keys().filter_map(|k| k.split('|').nth(1).map(|s| s.to_string())).collect();
    let mut extra = serde_json::Map::new();
    extra.insert("types_observed".into(), json!(types));
    let required = vec![("at least 24 types observed".to_string(), types.len() >= 24)];
    ctx.finish(
        acc,
        "class = (monitor [event-stream | replay-map | replay-map-permuted | replay-seq | json], type); every class is non-trivial: each part carries a distinct finite bit pattern (subnormals, -0.0, huge, tiny, integers, random bits) so that a dropped, swapped or altered field cannot cancel.",
        &["the recording Serializer / replaying Deserializer implement the serde data model for structs of floats; serde_json is used only for values whose JSON text round-trips the bare float exactly (others are skipped and counted)"],
        extra,
        &required,
    );
}
