//! C05 — derivative driver functions seed, extract and orient results correctly.
//! Monitor: all twenty public drivers are called with generated (asymmetric) functions R^n -> R^m
//! for static and dynamic lengths and element types f64, f32 and Dual64; every output entry is
//! compared with the corresponding partial derivative from the reference model (seeded per index
//! through scalar model algebras, independent of the vector types the drivers use).

use nalgebra::{Const, Dim, Dyn, OMatrix, OVector, U1};
use ndv_core::basis::Kind;
use ndv_core::evidence::{floats, guarded, Acc, Ctx};
use ndv_core::jetty::*;
use ndv_core::program::{generate, model_partials, BinOp, GenCfg, Node, Program};
use ndv_core::{Func, Rng, Shape};
use num_dual::*;
use serde_json::{json, Value};
use std::cell::Cell;

const K: f64 = 32.0;

struct Case {
    progs: Vec<Program>,
    n: usize,
    /// element parts of every input (1 value for floats, 2 for Dual64 elements)
    xparts: Vec<Vec<f64>>,
    f32: bool,
    elem: Shape,
}

impl Case {
    fn json(&self) -> Value {
        json!({"programs": self.progs.iter().map(|p| p.to_json()).collect::<Vec<_>>(), "x_parts": self.xparts.iter().map(|v| floats(v)).collect::<Vec<_>>()})
    }
}

fn const_program(rng: &mut Rng) -> Program {
    let c = (rng.range(0.2, 2.0)) as f32 as f64;
    Program { ninputs: 0, nodes: vec![Node::Const(c), Node::Un(Func::Exp, 0), Node::Scalar(BinOp::Mul, 1, 2.5)] }
}

fn gen_case<T: Jetty>(rng: &mut Rng, n: usize, m: usize) -> Case {
    let elem = T::shape((0, 0));
    let ne = elem.nslots();
    let x: Vec<f64> = (0..n)
        .map(|_| {
            let v = match rng.below(3) {
                0 => rng.range(0.2, 2.0),
                1 => rng.range(-2.0, -0.2),
                _ => rng.range(0.05, 0.9),
            };
            v as f32 as f64
        })
        .collect();
    let xparts: Vec<Vec<f64>> = x
        .iter()
        .map(|x0| {
            let mut p = vec![*x0];
            for _ in 1..ne {
                p.push(rng.part() as f32 as f64);
            }
            p
        })
        .collect();
    let progs = (0..m)
        .map(|i| {
            // some outputs are true constants (absent derivative parts) among dependent ones
            if n == 0 || (m >= 2 && i + 1 < m && rng.chance(0.25)) {
                const_program(rng)
            } else {
                let cfg = GenCfg { max_nodes: n + 3 + rng.below(12), ninputs: n, f32: T::IS_F32, selects: false, allow_sph: false };
                generate(rng, &cfg, &x).0
            }
        })
        .collect();
    Case { progs, n, xparts, f32: T::IS_F32, elem }
}

fn elems<T: Jetty>(c: &Case) -> Vec<T> {
    c.xparts.iter().map(|p| build_all::<T>(&c.elem, p)).collect()
}

/// compare one output entry (an element-type value) with model slots [o*ne .. (o+1)*ne)
#[allow(clippy::too_many_arguments)]
fn cmp<T: Jetty>(acc: &mut Acc, drv: &str, tname: &str, dims: &str, entry: &str, got: &T, c: &Case, want: &[f64], mag: &[f64], o: usize) {
    let ne = c.elem.nslots();
    let g = parts(got, &c.elem);
    let u = unit_roundoff::<T>();
    for e in 0..ne {
        let (w, m) = (want[o * ne + e], mag[o * ne + e]);
        if !(w.is_finite() && m.is_finite()) || u * m > 1e-3 * (1.0 + w.abs()) {
            acc.count("entries_skipped_ill_conditioned", 1);
            continue;
        }
        let d = (g[e] - w).abs();
        if !(g[e].is_finite() && d <= K * u * m) {
            acc.violate(
                format!("{}:{}:{}", drv, tname, dims),
                format!("{} on {} ({}): entry {} part {}: got {:e}, expected {:e} (|diff| {:.3e}, allowed {:.3e})", drv, tname, dims, entry, e, g[e], w, d, K * u * m),
                c.json(),
            );
            return;
        } else if m > 0.0 {
            acc.ratio(d / (u * m), || format!("{} {} {}", drv, tname, dims));
        }
    }
}

fn same_bits<T: Jetty>(a: &T, b: &T, elem: &Shape) -> bool {
    let (x, y) = (parts(a, elem), parts(b, elem));
    x.iter().zip(&y).all(|(p, q)| p.to_bits() == q.to_bits() || (p.is_nan() && q.is_nan()))
}

fn vec_of<T: Jetty, D: Dim>(n: usize, e: &[T]) -> OVector<T, D>
where
    nalgebra::DefaultAllocator: nalgebra::allocator::Allocator<D>,
    T: nalgebra::Scalar,
{
    OVector::<T, D>::from_iterator_generic(D::from_usize(n), U1, e.iter().cloned())
}

#[derive(Debug, PartialEq, Clone)]
struct Token(u64);

macro_rules! scalar_drivers {
    ($acc:expr, $rng:expr, $T:ty, $tname:expr) => {{
        type F = <$T as Jetty>::F;
        ndv_core::track::set_u(unit_roundoff::<$T>());
        // first / second / third derivative
        let c = gen_case::<$T>($rng, 1, 1);
        let x: Vec<$T> = elems(&c);
        let p = &c.progs[0];
        let (want, mag) = model_partials(p, &c.elem, &c.xparts, Kind::Dual3, &[0], c.f32);
        let r1 = guarded(|| first_derivative(|d: Dual<$T, F>| p.eval(&[d]).pop().unwrap(), x[0].clone()));
        let r2 = guarded(|| second_derivative(|d: Dual2<$T, F>| p.eval(&[d]).pop().unwrap(), x[0].clone()));
        let r3 = guarded(|| third_derivative(|d: Dual3<$T, F>| p.eval(&[d]).pop().unwrap(), x[0].clone()));
        match (r1, r2, r3) {
            (Ok((f0, f1)), Ok((g0, g1, g2)), Ok((h0, h1, h2, h3))) => {
                $acc.observe(&format!("first_derivative|{}", $tname), true);
                $acc.observe(&format!("second_derivative|{}", $tname), true);
                $acc.observe(&format!("third_derivative|{}", $tname), true);
                cmp::<$T>($acc, "first_derivative", $tname, "-", "f", &f0, &c, &want, &mag, 0);
                cmp::<$T>($acc, "first_derivative", $tname, "-", "df", &f1, &c, &want, &mag, 1);
                cmp::<$T>($acc, "second_derivative", $tname, "-", "f", &g0, &c, &want, &mag, 0);
                cmp::<$T>($acc, "second_derivative", $tname, "-", "df", &g1, &c, &want, &mag, 1);
                cmp::<$T>($acc, "second_derivative", $tname, "-", "d2f", &g2, &c, &want, &mag, 2);
                cmp::<$T>($acc, "third_derivative", $tname, "-", "f", &h0, &c, &want, &mag, 0);
                cmp::<$T>($acc, "third_derivative", $tname, "-", "df", &h1, &c, &want, &mag, 1);
                cmp::<$T>($acc, "third_derivative", $tname, "-", "d2f", &h2, &c, &want, &mag, 2);
                cmp::<$T>($acc, "third_derivative", $tname, "-", "d3f", &h3, &c, &want, &mag, 3);
                // the documented manual route (seed with the public `derivative()` methods, evaluate,
                // read the fields) must give exactly what the drivers return
                let m1 = p.eval(&[Dual::<$T, F>::from_re(x[0].clone()).derivative()]).pop().unwrap();
                let m2 = p.eval(&[Dual2::<$T, F>::from_re(x[0].clone()).derivative()]).pop().unwrap();
                let m3 = p.eval(&[Dual3::<$T, F>::from_re(x[0].clone()).derivative()]).pop().unwrap();
                $acc.observe(&format!("manual-seeding:derivative()|{}", $tname), true);
                if !(same_bits(&m1.re, &f0, &c.elem) && same_bits(&m1.eps, &f1, &c.elem)
                    && same_bits(&m2.re, &g0, &c.elem) && same_bits(&m2.v1, &g1, &c.elem) && same_bits(&m2.v2, &g2, &c.elem)
                    && same_bits(&m3.re, &h0, &c.elem) && same_bits(&m3.v1, &h1, &c.elem) && same_bits(&m3.v2, &h2, &c.elem) && same_bits(&m3.v3, &h3, &c.elem))
                {
                    $acc.violate(format!("manual-seeding:scalar:{}", $tname), format!("Dual/Dual2/Dual3::from_re(x).derivative() evaluated by hand differs from first/second/third_derivative on {}", $tname), c.json());
                }
                // try_ variants: Ok == infallible bitwise; Err passes the token through, closure entered once
                let t1 = try_first_derivative(|d: Dual<$T, F>| Ok::<_, Token>(p.eval(&[d]).pop().unwrap()), x[0].clone()).unwrap();
                let t2 = try_second_derivative(|d: Dual2<$T, F>| Ok::<_, Token>(p.eval(&[d]).pop().unwrap()), x[0].clone()).unwrap();
                let t3 = try_third_derivative(|d: Dual3<$T, F>| Ok::<_, Token>(p.eval(&[d]).pop().unwrap()), x[0].clone()).unwrap();
                let okb = same_bits(&t1.0, &f0, &c.elem) && same_bits(&t1.1, &f1, &c.elem)
                    && same_bits(&t2.0, &g0, &c.elem) && same_bits(&t2.1, &g1, &c.elem) && same_bits(&t2.2, &g2, &c.elem)
                    && same_bits(&t3.0, &h0, &c.elem) && same_bits(&t3.1, &h1, &c.elem) && same_bits(&t3.2, &h2, &c.elem) && same_bits(&t3.3, &h3, &c.elem);
                $acc.observe(&format!("try_*_derivative-ok|{}", $tname), true);
                if !okb {
                    $acc.violate(format!("try-ok:scalar:{}", $tname), format!("try_first/second/third_derivative Ok differs from the infallible variant on {}", $tname), c.json());
                }
                let tok = Token($rng.next_u64());
                let n = Cell::new(0);
                let e1 = try_first_derivative(|_d: Dual<$T, F>| { n.set(n.get() + 1); Err::<Dual<$T, F>, _>(tok.clone()) }, x[0].clone());
                let e2 = try_second_derivative(|_d: Dual2<$T, F>| { n.set(n.get() + 1); Err::<Dual2<$T, F>, _>(tok.clone()) }, x[0].clone());
                let e3 = try_third_derivative(|_d: Dual3<$T, F>| { n.set(n.get() + 1); Err::<Dual3<$T, F>, _>(tok.clone()) }, x[0].clone());
                $acc.observe(&format!("try_*_derivative-err|{}", $tname), true);
                if e1.err() != Some(tok.clone()) || e2.err() != Some(tok.clone()) || e3.err() != Some(tok.clone()) || n.get() != 3 {
                    $acc.violate(format!("try-err:scalar:{}", $tname), format!("try_*_derivative did not return the closure's error unchanged / entered the closure {} times for 3 calls", n.get()), c.json());
                }
            }
            _ => $acc.violate(format!("panic:scalar:{}", $tname), format!("first/second/third_derivative panicked on {}", $tname), c.json()),
        }
        // second_partial_derivative (x, y) and third_partial_derivative (x, y, z)
        let c = gen_case::<$T>($rng, 3, 1);
        let x: Vec<$T> = elems(&c);
        let p = &c.progs[0];
        // two-variable function: third input fixed as a constant
        let (want, mag) = model_partials(p, &c.elem, &c.xparts, Kind::HyperDual, &[0, 1], c.f32);
        let z0 = x[2].clone();
        let r = guarded(|| second_partial_derivative(|a: HyperDual<$T, F>, b: HyperDual<$T, F>| p.eval(&[a, b, HyperDual::from_re(z0.clone())]).pop().unwrap(), x[0].clone(), x[1].clone()));
        match r {
            Ok((f, fx, fy, fxy)) => {
                $acc.observe(&format!("second_partial_derivative|{}", $tname), true);
                cmp::<$T>($acc, "second_partial_derivative", $tname, "-", "f", &f, &c, &want, &mag, 0);
                cmp::<$T>($acc, "second_partial_derivative", $tname, "-", "df/dx", &fx, &c, &want, &mag, 1);
                cmp::<$T>($acc, "second_partial_derivative", $tname, "-", "df/dy", &fy, &c, &want, &mag, 2);
                cmp::<$T>($acc, "second_partial_derivative", $tname, "-", "d2f/dxdy", &fxy, &c, &want, &mag, 3);
                let mh = p.eval(&[HyperDual::<$T, F>::from_re(x[0].clone()).derivative1(), HyperDual::<$T, F>::from_re(x[1].clone()).derivative2(), HyperDual::from_re(z0.clone())]).pop().unwrap();
                $acc.observe(&format!("manual-seeding:derivative1/2()|{}", $tname), true);
                if !(same_bits(&mh.re, &f, &c.elem) && same_bits(&mh.eps1, &fx, &c.elem) && same_bits(&mh.eps2, &fy, &c.elem) && same_bits(&mh.eps1eps2, &fxy, &c.elem)) {
                    $acc.violate(format!("manual-seeding:second_partial:{}", $tname), format!("HyperDual derivative1()/derivative2() evaluated by hand differs from second_partial_derivative on {}", $tname), c.json());
                }
                let t = try_second_partial_derivative(|a: HyperDual<$T, F>, b: HyperDual<$T, F>| Ok::<_, Token>(p.eval(&[a, b, HyperDual::from_re(z0.clone())]).pop().unwrap()), x[0].clone(), x[1].clone()).unwrap();
                if !(same_bits(&t.0, &f, &c.elem) && same_bits(&t.1, &fx, &c.elem) && same_bits(&t.2, &fy, &c.elem) && same_bits(&t.3, &fxy, &c.elem)) {
                    $acc.violate(format!("try-ok:second_partial:{}", $tname), "try_second_partial_derivative Ok differs from the infallible variant".into(), c.json());
                }
                let tok = Token($rng.next_u64());
                let e = try_second_partial_derivative(|_a: HyperDual<$T, F>, _b: HyperDual<$T, F>| Err::<HyperDual<$T, F>, _>(tok.clone()), x[0].clone(), x[1].clone());
                if e.err() != Some(tok) {
                    $acc.violate(format!("try-err:second_partial:{}", $tname), "try_second_partial_derivative did not return the closure's error".into(), c.json());
                }
            }
            Err(m) => $acc.violate(format!("panic:second_partial:{}", $tname), format!("second_partial_derivative panicked: {}", m), c.json()),
        }
        let (want, mag) = model_partials(p, &c.elem, &c.xparts, Kind::HyperHyperDual, &[0, 1, 2], c.f32);
        let r = guarded(|| third_partial_derivative(|a: HyperHyperDual<$T, F>, b: HyperHyperDual<$T, F>, cc: HyperHyperDual<$T, F>| p.eval(&[a, b, cc]).pop().unwrap(), x[0].clone(), x[1].clone(), x[2].clone()));
        match r {
            Ok(t8) => {
                $acc.observe(&format!("third_partial_derivative|{}", $tname), true);
                let names = ["f", "fx", "fy", "fz", "fxy", "fxz", "fyz", "fxyz"];
                let arr = [&t8.0, &t8.1, &t8.2, &t8.3, &t8.4, &t8.5, &t8.6, &t8.7];
                for o in 0..8 {
                    cmp::<$T>($acc, "third_partial_derivative", $tname, "-", names[o], arr[o], &c, &want, &mag, o);
                }
                let mh = p
                    .eval(&[HyperHyperDual::<$T, F>::from_re(x[0].clone()).derivative1(), HyperHyperDual::<$T, F>::from_re(x[1].clone()).derivative2(), HyperHyperDual::<$T, F>::from_re(x[2].clone()).derivative3()])
                    .pop()
                    .unwrap();
                let marr = [&mh.re, &mh.eps1, &mh.eps2, &mh.eps3, &mh.eps1eps2, &mh.eps1eps3, &mh.eps2eps3, &mh.eps1eps2eps3];
                $acc.observe(&format!("manual-seeding:derivative1/2/3()|{}", $tname), true);
                if !(0..8).all(|o| same_bits(marr[o], arr[o], &c.elem)) {
                    $acc.violate(format!("manual-seeding:third_partial:{}", $tname), format!("HyperHyperDual derivative1/2/3() evaluated by hand differs from third_partial_derivative on {}", $tname), c.json());
                }
                let t = try_third_partial_derivative(|a: HyperHyperDual<$T, F>, b: HyperHyperDual<$T, F>, cc: HyperHyperDual<$T, F>| Ok::<_, Token>(p.eval(&[a, b, cc]).pop().unwrap()), x[0].clone(), x[1].clone(), x[2].clone()).unwrap();
                let tarr = [&t.0, &t.1, &t.2, &t.3, &t.4, &t.5, &t.6, &t.7];
                if !(0..8).all(|o| same_bits(tarr[o], arr[o], &c.elem)) {
                    $acc.violate(format!("try-ok:third_partial:{}", $tname), "try_third_partial_derivative Ok differs from the infallible variant".into(), c.json());
                }
                let tok = Token($rng.next_u64());
                let e = try_third_partial_derivative(|_a: HyperHyperDual<$T, F>, _b: HyperHyperDual<$T, F>, _c: HyperHyperDual<$T, F>| Err::<HyperHyperDual<$T, F>, _>(tok.clone()), x[0].clone(), x[1].clone(), x[2].clone());
                if e.err() != Some(tok) {
                    $acc.violate(format!("try-err:third_partial:{}", $tname), "try_third_partial_derivative did not return the closure's error".into(), c.json());
                }
            }
            Err(m) => $acc.violate(format!("panic:third_partial:{}", $tname), format!("third_partial_derivative panicked: {}", m), c.json()),
        }
        // third_partial_derivative_vec: all index triples of an n-variable function
        let n = 1 + $rng.below(4);
        let c = gen_case::<$T>($rng, n, 1);
        let x: Vec<$T> = elems(&c);
        let p = &c.progs[0];
        for i in 0..n {
            for j in 0..n {
                for k in 0..n {
                    let (want, mag) = model_partials(p, &c.elem, &c.xparts, Kind::HyperHyperDual, &[i, j, k], c.f32);
                    let r = guarded(|| third_partial_derivative_vec(|v: &[HyperHyperDual<$T, F>]| p.eval(v).pop().unwrap(), &x, i, j, k));
                    match r {
                        Ok(t8) => {
                            let pat = if i == j && j == k { "iii" } else if i == j { "iik" } else if j == k { "ijj" } else if i == k { "iji" } else { "ijk" };
                            $acc.observe(&format!("third_partial_derivative_vec|{}|n{}|{}", $tname, n, pat), true);
                            let names = ["f", "fi", "fj", "fk", "fij", "fik", "fjk", "fijk"];
                            let arr = [&t8.0, &t8.1, &t8.2, &t8.3, &t8.4, &t8.5, &t8.6, &t8.7];
                            for o in 0..8 {
                                cmp::<$T>($acc, "third_partial_derivative_vec", $tname, &format!("n{}({},{},{})", n, i, j, k), names[o], arr[o], &c, &want, &mag, o);
                            }
                            let t = try_third_partial_derivative_vec(|v: &[HyperHyperDual<$T, F>]| Ok::<_, Token>(p.eval(v).pop().unwrap()), &x, i, j, k).unwrap();
                            let tarr = [&t.0, &t.1, &t.2, &t.3, &t.4, &t.5, &t.6, &t.7];
                            if !(0..8).all(|o| same_bits(tarr[o], arr[o], &c.elem)) {
                                $acc.violate(format!("try-ok:third_partial_vec:{}", $tname), "try_third_partial_derivative_vec Ok differs from the infallible variant".into(), c.json());
                            }
                        }
                        Err(m) => $acc.violate(format!("panic:third_partial_vec:{}", $tname), format!("third_partial_derivative_vec({},{},{}) panicked: {}", i, j, k, m), c.json()),
                    }
                }
            }
        }
        let tok = Token($rng.next_u64());
        let e = try_third_partial_derivative_vec(|_v: &[HyperHyperDual<$T, F>]| Err::<HyperHyperDual<$T, F>, _>(tok.clone()), &x, 0, 0, 0);
        if e.err() != Some(tok) {
            $acc.violate(format!("try-err:third_partial_vec:{}", $tname), "try_third_partial_derivative_vec did not return the closure's error".into(), c.json());
        }
    }};
}

macro_rules! vector_drivers {
    ($acc:expr, $rng:expr, $T:ty, $tname:expr, $D:ty, $n:expr, $dname:expr) => {{
        type F = <$T as Jetty>::F;
        ndv_core::track::set_u(unit_roundoff::<$T>());
        let n: usize = $n;
        let c = gen_case::<$T>($rng, n, 1);
        let e: Vec<$T> = elems(&c);
        let p = &c.progs[0];
        // ---- gradient
        let r = guarded(|| gradient(|v: OVector<DualVec<$T, F, $D>, $D>| p.eval(v.as_slice()).pop().unwrap(), vec_of::<$T, $D>(n, &e)));
        match r {
            Ok((f, g)) => {
                $acc.observe(&format!("gradient|{}|{}", $tname, $dname), n >= 2);
                if g.len() != n {
                    $acc.violate(format!("gradient:{}:{}", $tname, $dname), format!("gradient has length {} for {} variables", g.len(), n), c.json());
                }
                for i in 0..n.min(g.len()) {
                    let (want, mag) = model_partials(p, &c.elem, &c.xparts, Kind::Dual, &[i], c.f32);
                    if i == 0 {
                        cmp::<$T>($acc, "gradient", $tname, $dname, "f", &f, &c, &want, &mag, 0);
                    }
                    cmp::<$T>($acc, "gradient", $tname, $dname, &format!("g[{}]", i), &g[i], &c, &want, &mag, 1);
                }
                let t = try_gradient(|v: OVector<DualVec<$T, F, $D>, $D>| Ok::<_, Token>(p.eval(v.as_slice()).pop().unwrap()), vec_of::<$T, $D>(n, &e)).unwrap();
                if !(same_bits(&t.0, &f, &c.elem) && (0..n).all(|i| same_bits(&t.1[i], &g[i], &c.elem))) {
                    $acc.violate(format!("try-ok:gradient:{}", $tname), "try_gradient Ok differs from gradient".into(), c.json());
                }
                let tok = Token($rng.next_u64());
                let cnt = Cell::new(0);
                let er = try_gradient(|_v: OVector<DualVec<$T, F, $D>, $D>| { cnt.set(cnt.get() + 1); Err::<DualVec<$T, F, $D>, _>(tok.clone()) }, vec_of::<$T, $D>(n, &e));
                if er.err() != Some(tok) || cnt.get() != 1 {
                    $acc.violate(format!("try-err:gradient:{}", $tname), "try_gradient did not return the closure's error unchanged (or entered the closure more than once)".into(), c.json());
                }
            }
            Err(m) => $acc.violate(format!("panic:gradient:{}:{}", $tname, $dname), format!("gradient panicked: {}", m), c.json()),
        }
        // ---- hessian
        let r = guarded(|| hessian(|v: OVector<Dual2Vec<$T, F, $D>, $D>| p.eval(v.as_slice()).pop().unwrap(), vec_of::<$T, $D>(n, &e)));
        match r {
            Ok((f, g, h)) => {
                $acc.observe(&format!("hessian|{}|{}", $tname, $dname), n >= 2);
                if g.len() != n || h.shape() != (n, n) {
                    $acc.violate(format!("hessian:{}:{}", $tname, $dname), format!("hessian shapes {:?} {:?} for {} variables", g.shape(), h.shape(), n), c.json());
                } else {
                    for i in 0..n {
                        for j in 0..n {
                            let (want, mag) = model_partials(p, &c.elem, &c.xparts, Kind::HyperDual, &[i, j], c.f32);
                            if i == 0 && j == 0 {
                                cmp::<$T>($acc, "hessian", $tname, $dname, "f", &f, &c, &want, &mag, 0);
                            }
                            if j == 0 {
                                cmp::<$T>($acc, "hessian", $tname, $dname, &format!("g[{}]", i), &g[i], &c, &want, &mag, 1);
                            }
                            cmp::<$T>($acc, "hessian", $tname, $dname, &format!("h[({},{})]", i, j), &h[(i, j)], &c, &want, &mag, 3);
                        }
                    }
                    let t = try_hessian(|v: OVector<Dual2Vec<$T, F, $D>, $D>| Ok::<_, Token>(p.eval(v.as_slice()).pop().unwrap()), vec_of::<$T, $D>(n, &e)).unwrap();
                    let same = same_bits(&t.0, &f, &c.elem) && (0..n).all(|i| same_bits(&t.1[i], &g[i], &c.elem)) && (0..n * n).all(|i| same_bits(&t.2[i], &h[i], &c.elem));
                    if !same {
                        $acc.violate(format!("try-ok:hessian:{}", $tname), "try_hessian Ok differs from hessian".into(), c.json());
                    }
                }
                let tok = Token($rng.next_u64());
                let er = try_hessian(|_v: OVector<Dual2Vec<$T, F, $D>, $D>| Err::<Dual2Vec<$T, F, $D>, _>(tok.clone()), vec_of::<$T, $D>(n, &e));
                if er.err() != Some(tok) {
                    $acc.violate(format!("try-err:hessian:{}", $tname), "try_hessian did not return the closure's error".into(), c.json());
                }
            }
            Err(m) => $acc.violate(format!("panic:hessian:{}:{}", $tname, $dname), format!("hessian panicked: {}", m), c.json()),
        }
    }};
}

macro_rules! jacobian_case {
    ($acc:expr, $rng:expr, $T:ty, $tname:expr, $M:ty, $m:expr, $N:ty, $n:expr, $dname:expr) => {{
        type F = <$T as Jetty>::F;
        ndv_core::track::set_u(unit_roundoff::<$T>());
        let (m, n): (usize, usize) = ($m, $n);
        let c = gen_case::<$T>($rng, n, m);
        let e: Vec<$T> = elems(&c);
        let run = |v: OVector<DualVec<$T, F, $N>, $N>| -> OVector<DualVec<$T, F, $N>, $M> {
            let outs: Vec<DualVec<$T, F, $N>> = c.progs.iter().map(|p| p.eval(v.as_slice()).pop().unwrap()).collect();
            OVector::<DualVec<$T, F, $N>, $M>::from_iterator_generic(<$M>::from_usize(m), U1, outs)
        };
        let r = guarded(|| jacobian(run, vec_of::<$T, $N>(n, &e)));
        match r {
            Ok((f, jac)) => {
                $acc.observe(&format!("jacobian|{}|{}|{}", $tname, $dname, if m == n { "square" } else if m < n { "wide" } else { "tall" }), m != n || n >= 2);
                if f.len() != m || jac.shape() != (m, n) {
                    $acc.violate(format!("jacobian:{}:{}", $tname, $dname), format!("jacobian shapes f {:?} J {:?} for m={} n={}", f.shape(), jac.shape(), m, n), c.json());
                } else {
                    for i in 0..m {
                        let one = Case { progs: vec![c.progs[i].clone()], n: c.n, xparts: c.xparts.clone(), f32: c.f32, elem: c.elem.clone() };
                        for j in 0..n.max(1) {
                            let seed = if n == 0 { vec![0] } else { vec![j] };
                            let xp = if n == 0 { vec![] } else { c.xparts.clone() };
                            let (want, mag) = model_partials(&c.progs[i], &c.elem, &xp, Kind::Dual, &seed, c.f32);
                            if j == 0 {
                                cmp::<$T>($acc, "jacobian", $tname, $dname, &format!("f[{}]", i), &f[i], &one, &want, &mag, 0);
                            }
                            if n > 0 {
                                cmp::<$T>($acc, "jacobian", $tname, $dname, &format!("J[({},{})]", i, j), &jac[(i, j)], &one, &want, &mag, 1);
                            }
                        }
                    }
                    let run2 = |v: OVector<DualVec<$T, F, $N>, $N>| -> Result<OVector<DualVec<$T, F, $N>, $M>, Token> {
                        let outs: Vec<DualVec<$T, F, $N>> = c.progs.iter().map(|p| p.eval(v.as_slice()).pop().unwrap()).collect();
                        Ok(OVector::<DualVec<$T, F, $N>, $M>::from_iterator_generic(<$M>::from_usize(m), U1, outs))
                    };
                    let t = try_jacobian(run2, vec_of::<$T, $N>(n, &e)).unwrap();
                    let same = (0..m).all(|i| same_bits(&t.0[i], &f[i], &c.elem)) && (0..m * n).all(|i| same_bits(&t.1[i], &jac[i], &c.elem));
                    if !same {
                        $acc.violate(format!("try-ok:jacobian:{}", $tname), "try_jacobian Ok differs from jacobian".into(), c.json());
                    }
                }
                let tok = Token($rng.next_u64());
                let er = try_jacobian(|_v: OVector<DualVec<$T, F, $N>, $N>| Err::<OVector<DualVec<$T, F, $N>, $M>, _>(tok.clone()), vec_of::<$T, $N>(n, &e));
                if er.err() != Some(tok) {
                    $acc.violate(format!("try-err:jacobian:{}", $tname), "try_jacobian did not return the closure's error".into(), c.json());
                }
            }
            Err(msg) => $acc.violate(format!("panic:jacobian:{}:{}", $tname, $dname), format!("jacobian panicked: {}", msg), c.json()),
        }
    }};
}

macro_rules! partial_hessian_case {
    ($acc:expr, $rng:expr, $T:ty, $tname:expr, $M:ty, $m:expr, $N:ty, $n:expr, $dname:expr) => {{
        type F = <$T as Jetty>::F;
        ndv_core::track::set_u(unit_roundoff::<$T>());
        let (m, n): (usize, usize) = ($m, $n);
        let c = gen_case::<$T>($rng, m + n, 1);
        let e: Vec<$T> = elems(&c);
        let p = &c.progs[0];
        let f = |x: OVector<HyperDualVec<$T, F, $M, $N>, $M>, y: OVector<HyperDualVec<$T, F, $M, $N>, $N>| {
            let mut all: Vec<HyperDualVec<$T, F, $M, $N>> = x.iter().cloned().collect();
            all.extend(y.iter().cloned());
            p.eval(&all).pop().unwrap()
        };
        let r = guarded(|| partial_hessian(f, vec_of::<$T, $M>(m, &e[..m]), vec_of::<$T, $N>(n, &e[m..])));
        match r {
            Ok((f0, fx, fy, fxy)) => {
                $acc.observe(&format!("partial_hessian|{}|{}", $tname, $dname), m != n || m >= 2);
                if fx.len() != m || fy.len() != n || fxy.shape() != (m, n) {
                    $acc.violate(format!("partial_hessian:{}:{}", $tname, $dname), format!("partial_hessian shapes {:?} {:?} {:?} for ({},{})", fx.shape(), fy.shape(), fxy.shape(), m, n), c.json());
                } else {
                    for i in 0..m {
                        for j in 0..n {
                            let (want, mag) = model_partials(p, &c.elem, &c.xparts, Kind::HyperDual, &[i, m + j], c.f32);
                            if i == 0 && j == 0 {
                                cmp::<$T>($acc, "partial_hessian", $tname, $dname, "f", &f0, &c, &want, &mag, 0);
                            }
                            if j == 0 {
                                cmp::<$T>($acc, "partial_hessian", $tname, $dname, &format!("fx[{}]", i), &fx[i], &c, &want, &mag, 1);
                            }
                            if i == 0 {
                                cmp::<$T>($acc, "partial_hessian", $tname, $dname, &format!("fy[{}]", j), &fy[j], &c, &want, &mag, 2);
                            }
                            cmp::<$T>($acc, "partial_hessian", $tname, $dname, &format!("fxy[({},{})]", i, j), &fxy[(i, j)], &c, &want, &mag, 3);
                        }
                    }
                    let f2 = |x: OVector<HyperDualVec<$T, F, $M, $N>, $M>, y: OVector<HyperDualVec<$T, F, $M, $N>, $N>| {
                        let mut all: Vec<HyperDualVec<$T, F, $M, $N>> = x.iter().cloned().collect();
                        all.extend(y.iter().cloned());
                        Ok::<_, Token>(p.eval(&all).pop().unwrap())
                    };
                    let t = try_partial_hessian(f2, vec_of::<$T, $M>(m, &e[..m]), vec_of::<$T, $N>(n, &e[m..])).unwrap();
                    let same = same_bits(&t.0, &f0, &c.elem) && (0..m).all(|i| same_bits(&t.1[i], &fx[i], &c.elem)) && (0..n).all(|i| same_bits(&t.2[i], &fy[i], &c.elem)) && (0..m * n).all(|i| same_bits(&t.3[i], &fxy[i], &c.elem));
                    if !same {
                        $acc.violate(format!("try-ok:partial_hessian:{}", $tname), "try_partial_hessian Ok differs from partial_hessian".into(), c.json());
                    }
                }
                let tok = Token($rng.next_u64());
                let er = try_partial_hessian(|_x: OVector<HyperDualVec<$T, F, $M, $N>, $M>, _y: OVector<HyperDualVec<$T, F, $M, $N>, $N>| Err::<HyperDualVec<$T, F, $M, $N>, _>(tok.clone()), vec_of::<$T, $M>(m, &e[..m]), vec_of::<$T, $N>(n, &e[m..]));
                if er.err() != Some(tok) {
                    $acc.violate(format!("try-err:partial_hessian:{}", $tname), "try_partial_hessian did not return the closure's error".into(), c.json());
                }
            }
            Err(msg) => $acc.violate(format!("panic:partial_hessian:{}:{}", $tname, $dname), format!("partial_hessian panicked: {}", msg), c.json()),
        }
    }};
}

macro_rules! all_for_elem {
    ($acc:expr, $rng:expr, $T:ty, $tname:expr) => {{
        scalar_drivers!($acc, $rng, $T, $tname);
        vector_drivers!($acc, $rng, $T, $tname, Const<0>, 0, "S0");
        vector_drivers!($acc, $rng, $T, $tname, Const<1>, 1, "S1");
        vector_drivers!($acc, $rng, $T, $tname, Const<2>, 2, "S2");
        vector_drivers!($acc, $rng, $T, $tname, Const<3>, 3, "S3");
        vector_drivers!($acc, $rng, $T, $tname, Const<4>, 4, "S4");
        vector_drivers!($acc, $rng, $T, $tname, Const<5>, 5, "S5");
        vector_drivers!($acc, $rng, $T, $tname, Const<6>, 6, "S6");
        let nd = $rng.below(7);
        vector_drivers!($acc, $rng, $T, $tname, Dyn, nd, &format!("D{}", nd));
        // beyond the 0..6 of the property: size-dependent paths (unrolled / blocked variants) change
        let nd = 7 + $rng.below(10);
        vector_drivers!($acc, $rng, $T, $tname, Dyn, nd, "D7-16");
        jacobian_case!($acc, $rng, $T, $tname, Const<2>, 2, Const<0>, 0, "S2x0");
        jacobian_case!($acc, $rng, $T, $tname, Const<1>, 1, Const<1>, 1, "S1x1");
        jacobian_case!($acc, $rng, $T, $tname, Const<2>, 2, Const<3>, 3, "S2x3");
        jacobian_case!($acc, $rng, $T, $tname, Const<3>, 3, Const<2>, 2, "S3x2");
        jacobian_case!($acc, $rng, $T, $tname, Const<4>, 4, Const<1>, 1, "S4x1");
        jacobian_case!($acc, $rng, $T, $tname, Const<1>, 1, Const<4>, 4, "S1x4");
        jacobian_case!($acc, $rng, $T, $tname, Const<6>, 6, Const<2>, 2, "S6x2");
        jacobian_case!($acc, $rng, $T, $tname, Const<2>, 2, Const<6>, 6, "S2x6");
        jacobian_case!($acc, $rng, $T, $tname, Const<3>, 3, Const<3>, 3, "S3x3");
        let (md, nd) = (1 + $rng.below(6), $rng.below(7));
        jacobian_case!($acc, $rng, $T, $tname, Dyn, md, Dyn, nd, &format!("D{}x{}", md, nd));
        let nd = 1 + $rng.below(6);
        jacobian_case!($acc, $rng, $T, $tname, Const<2>, 2, Dyn, nd, &format!("S2xD{}", nd));
        let md = 1 + $rng.below(6);
        jacobian_case!($acc, $rng, $T, $tname, Dyn, md, Const<3>, 3, &format!("D{}xS3", md));
        partial_hessian_case!($acc, $rng, $T, $tname, Const<1>, 1, Const<1>, 1, "S1x1");
        partial_hessian_case!($acc, $rng, $T, $tname, Const<2>, 2, Const<1>, 1, "S2x1");
        partial_hessian_case!($acc, $rng, $T, $tname, Const<1>, 1, Const<3>, 3, "S1x3");
        partial_hessian_case!($acc, $rng, $T, $tname, Const<2>, 2, Const<3>, 3, "S2x3");
        partial_hessian_case!($acc, $rng, $T, $tname, Const<3>, 3, Const<2>, 2, "S3x2");
        partial_hessian_case!($acc, $rng, $T, $tname, Const<3>, 3, Const<3>, 3, "S3x3");
        let (md, nd) = (1 + $rng.below(4), 1 + $rng.below(4));
        partial_hessian_case!($acc, $rng, $T, $tname, Dyn, md, Dyn, nd, &format!("D{}x{}", md, nd));
    }};
}

fn main() {
    let ctx = Ctx::from_args("C05");
    ndv_checks::warm_up_f32();
    let rounds = ctx.n(400, 200000);
    let acc = ctx.parallel(|shard, nshards| {
        let mut acc = Acc::new();
        for r in 0..rounds {
            if r % nshards as u64 != shard as u64 {
                continue;
            }
            let mut rng = Rng::stream(ctx.seed, 5, r);
            let a = &mut acc;
            let g = &mut rng;
            all_for_elem!(a, g, f64, "f64");
            all_for_elem!(a, g, f32, "f32");
            all_for_elem!(a, g, Dual64, "Dual64");
            if r < 2 {
                let c = gen_case::<f64>(g, 2, 1);
                let e: Vec<f64> = elems(&c);
                let p = &c.progs[0];
                let (f, gr) = gradient(|v: OVector<DualSVec64<2>, Const<2>>| p.eval(v.as_slice()).pop().unwrap(), vec_of::<f64, Const<2>>(2, &e));
                a.sample(|| json!({"driver": "gradient", "program": p.to_json(), "x": floats(&e), "f": f, "gradient": [gr[0], gr[1]]}));
            }
            a.count("rounds", 1);
        }
        acc
    });
    let drivers: std::collections::BTreeSet<String> = acc.classes.keys().map(|k| k.split('|').next().unwrap().to_string()).collect();
    let mut extra = serde_json::Map::new();
    extra.insert("drivers_observed".into(), json!(drivers));
    extra.insert("K".into(), json!(K));
    let required = vec![(format!("all driver families observed (seen {})", drivers.len()), drivers.len() >= 12)];
    ctx.finish(
        acc,
        "one evaluation = one driver call whose every output entry is compared with the model; class = (driver, element type, dimensions / index pattern); non-trivial = more than one variable (or non-square Jacobian, or repeated-index pattern for third_partial_derivative_vec). Functions are random programs (asymmetric in their variables); lengths: static 1..6 and dynamic 0..6; Jacobians with m != n; all n^3 index triples for third_partial_derivative_vec; element types f64, f32 and Dual64 (drivers applied to dual arguments).",
        &["expected entries come from the tracked reference model seeded per index through scalar algebras (Dual, HyperDual, HyperHyperDual, Dual3); tolerance K*u*bound with K=32"],
        extra,
        &required,
    );
}

#[allow(dead_code)]
fn _unused(_: OMatrix<f64, Dyn, Dyn>) {}
