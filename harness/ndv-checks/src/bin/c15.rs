//! C15 — spherical Bessel functions j0, j1, j2 are correct for every real argument.
//! Monitor: sph_j0/1/2 on every type (f32 and f64, plain floats included) over a stratified sweep
//! of [-50, 50] plus the special arguments (0, denormals, both sides of the small-argument switch,
//! 10^-k), against Taylor coefficients from the Maclaurin series / series division; the real part
//! of every dual result is also compared with the plain-float instance at the same argument.

use ndv_checks::special::*;
use ndv_core::evidence::{floats, guarded, Acc, Ctx};
use ndv_core::funcs::{apply, model_point};
use ndv_core::gen::{gen_slots, STYLES};
use ndv_core::jetty::*;
use ndv_core::model::Jet;
use ndv_core::taylor::Func;
use ndv_core::zoo::*;
use ndv_core::{Basis, Rng};
use serde_json::json;

const K: f64 = 32.0;

fn regions(f32: bool) -> Vec<(&'static str, Box<dyn Fn(&mut Rng) -> f64>)> {
    let eps = if f32 { f32::EPSILON as f64 } else { f64::EPSILON };
    let tiny = if f32 { 1e-45 } else { 5e-324 };
    let kmax = if f32 { 7 } else { 15 };
    vec![
        ("zero", Box::new(|r| if r.bool() { 0.0 } else { -0.0 })),
        ("denormal", Box::new(move |r| r.sign() * tiny * (1 + r.below(3)) as f64)),
        ("below-switch", Box::new(move |r| r.sign() * eps * *r.choose(&[0.5, 0.25, 0.99, 1e-3]))),
        ("at-switch", Box::new(move |r| r.sign() * eps * *r.choose(&[1.0, 1.0 + 2.3e-16, 1.0000002, 2.0, 1.5]))),
        ("10^-k", Box::new(move |r| r.sign() * (10.0f64).powi(-(r.int(1, kmax) as i32)))),
        ("(0.1,1)", Box::new(|r| r.sign() * r.range(0.1, 1.0))),
        ("[1,10)", Box::new(|r| r.sign() * r.range(1.0, 10.0))),
        ("[10,50]", Box::new(|r| r.sign() * r.range(10.0, 50.0))),
        ("negative-sweep", Box::new(|r| -r.range(0.0, 50.0))),
        ("near-zero-of-jn", Box::new(|r| {
            // zeros of j0 at k*pi; of j1 near 4.4934, 7.7253; of j2 near 5.7635, 9.0950
            let z = *r.choose(&[std::f64::consts::PI, 2.0 * std::f64::consts::PI, 4.493409457909064, 7.725251836937707, 5.763459196894550, 9.095011330476355]);
            r.sign() * (z + r.range(-1e-3, 1e-3))
        })),
    ]
}

fn check_type<T: Jetty>(tname: &str, ctx: &Ctx, shard: usize, nshards: usize, tindex: u64) -> Acc
where
    T::F: num_dual::DualNum<T::F>,
{
    let mut acc = Acc::new();
    let u = unit_roundoff::<T>();
    let per = ctx.n(150, 100000);
    let floor = if T::IS_F32 { 1e-44 } else { 1e-320 };
    let mut idx = 0u64;
    for (fi, f) in [Func::SphJ0, Func::SphJ1, Func::SphJ2].iter().enumerate() {
        let n = sph_order(*f).unwrap();
        for (ri, (rname, rgen)) in regions(T::IS_F32).iter().enumerate() {
            for rep in 0..per {
                idx += 1;
                if idx % nshards as u64 != shard as u64 {
                    continue;
                }
                let mut rng = Rng::stream(ctx.seed, 1500 + tindex * 100 + fi as u64 * 20 + ri as u64, rep);
                let shape = T::shape((1 + rng.below(3), 1 + rng.below(2)));
                let b = Basis::new(&shape);
                let mut x0 = rgen(&mut rng);
                if T::IS_F32 {
                    x0 = x0 as f32 as f64;
                }
                let style = (rep as usize) % STYLES.len();
                let slots = gen_slots(&mut rng, &b, x0, style, T::IS_F32);
                let mask = rng.next_u64();
                let x: T = build_with(&shape, &slots, &mut MaskAbsent::new(mask));
                let case = || json!({"type": tname, "shape": shape.name(), "func": f.short(), "x_slots": floats(&slots), "x_hex": ndv_core::hex(x0), "absent_mask": mask});
                let class = format!("{}|{}|{}|{}", f.short(), tname, rname, if x0 < 0.0 || (x0 == 0.0 && x0.is_sign_negative()) { "neg" } else { "pos" });
                acc.observe(&class, b.max_deg >= 1 && style != 2);
                let got = match guarded(|| apply::<T, T::F>(*f, &x)) {
                    Ok(g) => parts(&g, &shape),
                    Err(m) => {
                        acc.violate(format!("{}:{}:panic", f.short(), tname), format!("{} on {} panicked: {}", f.short(), tname, m), case());
                        continue;
                    }
                };
                ndv_core::evlog::log_unary("C15", tname, *f, &b, &slots, &got, T::IS_F32);
                let jet = Jet::from_slots(&b, &slots);
                let (want, tight, _) = model_point(*f, &jet, &b, &sph_tight(n, x0));
                let eps = if T::IS_F32 { f32::EPSILON as f64 } else { f64::EPSILON };
                let in_band = x0.abs() >= eps && x0.abs() < 1.0;
                let loose: Option<Vec<f64>> = None; let _ = in_band;
                judge(&mut acc, K, u, &format!("{}({:e})", f.short(), x0), f.short(), tname, &b, &got, &want, &tight, loose.as_ref().map(|l| (K1_SIG[n], l.as_slice())), floor, &case);
                // real part of the dual result vs the plain-float instance at the same argument
                if b.max_deg >= 1 {
                    let fl: f64 = apply::<T::F, T::F>(*f, &f_of::<T>(x0)).into();
                    acc.observe(&format!("{}-re-vs-float|{}|{}", f.short(), tname, rname), true);
                    let tol = K * u * tight[0] + floor;
                    let tol_loose = loose.as_ref().map(|l| K * u * l[0] + floor);
                    let d = (got[0] - fl).abs();
                    if !(d <= 2.0 * tol) {
                        let what = format!("{} on {} at {:e}: real part {:e} but the float instance gives {:e}", f.short(), tname, x0, got[0], fl);
                        match tol_loose {
                            Some(tl) if d <= 2.0 * tl => acc.violate(K1_SIG[n].to_string(), what, case()),
                            _ => acc.violate(format!("{}-re-vs-float:{}", f.short(), tname), what, case()),
                        }
                    }
                }
                if rep == 0 && ri == 6 && tindex % 11 == 0 {
                    acc.sample(|| json!({"type": tname, "func": f.short(), "x_slots": floats(&slots), "got": floats(&got), "true": floats(&want)}));
                }
            }
        }
    }
    acc
}

fn main() {
    let ctx = Ctx::from_args("C15");
    ndv_checks::warm_up_f32();
    let mut acc = ctx.parallel(|shard, nshards| {
        let mut acc = Acc::new();
        let mut t = 0u64;
        macro_rules! go {
            ($ty:ty, $name:expr) => {
                t += 1;
                acc.merge(check_type::<$ty>($name, &ctx, shard, nshards, t));
            };
        }
        ndv_core::zoo_all!(go);
        go!(f64, "f64");
        go!(f32, "f32");
        go!(ndv_core::zoo::D3D2_64, "Dual3<Dual2_64>");
        go!(ndv_core::zoo::D3D3_64, "Dual3<Dual3_64>");
        go!(ndv_core::zoo::DD32, "Dual<Dual32>");
        let _ = t;
        acc
    });
    // results must not depend on what was called before, on which thread, or at the same time
    acc.merge(ndv_checks::history_independence(ndv_checks::Family::SphericalBessel, &ctx));
    let regs: std::collections::BTreeSet<String> = acc.classes.keys().filter(|k| k.starts_with("sph_j") && !k.contains("-re-vs")).filter_map(|k| k.split('|').nth(2).map(|s| s.to_string())).collect();
    let mut extra = serde_json::Map::new();
    extra.insert("argument_regions_observed".into(), json!(regs));
    extra.insert("K".into(), json!(K));
    let required = vec![(format!("all 10 argument regions observed (seen {})", regs.len()), regs.len() >= 10)];
    ctx.finish(
        acc,
        "class = (function, type, argument region, sign of the argument); non-trivial = the type carries derivative parts and they are not all zero. Argument regions: +-0, denormals, below / at the small-argument switch (eps/2, eps, eps(1+2^-52), 2 eps), 10^-k, (0.1,1), [1,10), [10,50], negative sweep, neighbourhoods of zeros of j_n. Every case also compares the real part with the plain-float instance.",
        &[
            "truth: Maclaurin series re-expanded at x0 for |x0| < 2, series division of sin/cos jets beyond; tolerance K*u*(|true part| + absolute level 1/max(|x|,1), one more factor 1/|x| per derivative for |x| >= 1), K = 32",
            "known finding K1 (cancellation of the closed forms for eps <= |x| < 1): cases that miss the tight bound but meet the conditioning-aware bound 4(n+1)/|x|^(n+k) are reported as KNOWN-FINDING; anything beyond is a violation",
        ],
        extra,
        &required,
    );
}
