//! C10 — smooth special points yield finite, correct derivatives.
//! Monitor: the enumerated removable/special points of every function of the interface (and their
//! floating-point neighbours), on every type incl. nestings up to sixth order, with arbitrary
//! derivative parts: every result part must be finite and equal the value obtained from the
//! analytically known Taylor coefficients at that point.

use ndv_checks::special::*;
use ndv_core::evidence::{floats, guarded, Acc, Ctx};
use ndv_core::funcs::{apply, apply_bessel, model_point};
use ndv_core::gen::{gen_slots, STYLES};
use ndv_core::jetty::*;
use ndv_core::model::Jet;
use ndv_core::program::tr_atan2;
use ndv_core::taylor::{self, Func};
use ndv_core::track::Tr;
use ndv_core::zoo::*;
use ndv_core::{Basis, Rng};
use num_dual::BesselDual;
use serde_json::json;

const K: f64 = 32.0;

fn ulp_nb(x: f64, k: i64, f32: bool) -> f64 {
    if f32 {
        f32::from_bits(((x as f32).to_bits() as i64 + k) as u32) as f64
    } else {
        f64::from_bits((x.to_bits() as i64 + k) as u64)
    }
}

/// (function, point name, x0) for the unary functions
fn points(order: usize, f32: bool) -> Vec<(Func, String, f64)> {
    let mut v = Vec::new();
    let eps = if f32 { f32::EPSILON as f64 } else { f64::EPSILON };
    let tiny = if f32 { 1e-45f32 as f64 } else { 5e-324 };
    for z in [0.0f64, -0.0f64] {
        for n in 0..=8 {
            v.push((Func::Powi(n), format!("powi({})@{}0", n, if z.is_sign_negative() { "-" } else { "+" }), z));
        }
        for p in [0.0, 1.0, 2.0, 3.0, 4.0, 5.0, 6.0, 7.0, 1.5, 2.5, 3.5, 4.5, 5.5, 6.5] {
            let integer = p == (p as i64) as f64;
            if integer || p > order as f64 {
                v.push((Func::Powf(p), format!("powf({})@{}0", p, if z.is_sign_negative() { "-" } else { "+" }), z));
            }
        }
        v.push((Func::ExpM1, "exp_m1@0".into(), z));
        v.push((Func::Ln1p, "ln_1p@0".into(), z));
        // stationary / inflection points at an exactly representable argument: a derivative
        // coefficient is exactly zero there while (on nested types) its own derivative parts are not
        for (f, nm) in [(Func::Cos, "cos"), (Func::Cosh, "cosh"), (Func::Sin, "sin"), (Func::Sinh, "sinh"), (Func::Tan, "tan"), (Func::Tanh, "tanh"), (Func::Atan, "atan"), (Func::Asin, "asin"), (Func::Asinh, "asinh"), (Func::Atanh, "atanh")] {
            v.push((f, format!("{}@{}0", nm, if z.is_sign_negative() { "-" } else { "+" }), z));
        }
    }
    for s in [1.0, -1.0] {
        v.push((Func::ExpM1, "exp_m1@denormal".into(), s * tiny));
        v.push((Func::Ln1p, "ln_1p@denormal".into(), s * tiny));
        // a little further out, where exp(x) - 1 and ln(1 + x) formed naively are exactly 0 or have
        // lost most digits although x itself is a perfectly normal number
        let small: [(f64, &str); 4] = if f32 { [(1e-30, "1e-30"), (1e-12, "1e-12"), (3e-8, "eps/4"), (1e-5, "1e-5")] } else { [(1e-300, "1e-300"), (1e-40, "1e-40"), (5e-17, "eps/4"), (1e-10, "1e-10")] };
        for (m, nm) in small {
            v.push((Func::ExpM1, format!("exp_m1@{}", nm), s * m));
            v.push((Func::Ln1p, format!("ln_1p@{}", nm), s * m));
        }
        v.push((Func::Powi(3), "powi(3)@denormal".into(), s * tiny));
        v.push((Func::Powi(2), "powi(2)@denormal".into(), s * tiny));
    }
    for f in [Func::SphJ0, Func::SphJ1, Func::SphJ2] {
        let mut xs = vec![(0.0, "0".to_string()), (-0.0, "-0".to_string())];
        for s in [1.0, -1.0] {
            xs.push((s * tiny, "denormal".into()));
            xs.push((s * eps / 2.0, "eps/2".into()));
            xs.push((s * ulp_nb(eps, -1, f32), "eps-1ulp".into()));
            xs.push((s * eps, "eps".into()));
            xs.push((s * ulp_nb(eps, 1, f32), "eps+1ulp".into()));
            xs.push((s * 2.0 * eps, "2eps".into()));
            xs.push((s * 1e-4, "1e-4".into()));
            xs.push((s * 1e-2, "1e-2".into()));
            for k in [-2, -1, 0, 1, 2] {
                xs.push((s * ulp_nb(1.0, k, f32), format!("1{:+}ulp", k)));
            }
        }
        for (x, nm) in xs {
            v.push((f, format!("{}@{}", f.short(), nm), x));
        }
    }
    v
}

fn check_type<T: Jetty>(tname: &str, ctx: &Ctx, shard: usize, nshards: usize, tindex: u64) -> Acc {
    let mut acc = Acc::new();
    let u = unit_roundoff::<T>();
    ndv_core::track::set_u(u);
    let draws = ctx.n(24, 12000);
    let floor = if T::IS_F32 { 3e-42 } else { 1e-320 }; // denormal spacing times the amplification by the other parts (<~ 2e3)
    let mut idx = 0u64;
    let order = T::shape((1, 1)).order();
    for (pi, (f, pname, x0)) in points(order, T::IS_F32).iter().enumerate() {
        for rep in 0..draws {
            idx += 1;
            if idx % nshards as u64 != shard as u64 {
                continue;
            }
            let mut rng = Rng::stream(ctx.seed, 1000 + tindex * 400 + pi as u64, rep);
            let shape = T::shape((1 + rng.below(3), 1 + rng.below(2)));
            let b = Basis::new(&shape);
            let x0 = if T::IS_F32 { *x0 as f32 as f64 } else { *x0 };
            let style = (rep as usize) % STYLES.len();
            let mut slots = gen_slots(&mut rng, &b, x0, style, T::IS_F32);
            slots[0] = x0; // keep the sign of zero
            let mask = rng.next_u64();
            let x: T = build_with(&shape, &slots, &mut MaskAbsent::new(mask));
            let case = || json!({"type": tname, "shape": shape.name(), "point": pname, "x_slots": floats(&slots), "x_hex": ndv_core::hex(x0), "absent_mask": mask});
            acc.observe(&format!("{}|{}|{}", pname, tname, STYLES[style]), style != 2 && b.max_deg >= 1);
            let got = match guarded(|| apply::<T, T::F>(*f, &x)) {
                Ok(g) => parts(&g, &shape),
                Err(m) => {
                    acc.violate(format!("{}:{}:panic", f.short(), tname), format!("{} on {} panicked: {}", pname, tname, m), case());
                    continue;
                }
            };
            ndv_core::evlog::log_unary("C10", tname, *f, &b, &slots, &got, T::IS_F32);
            let jet = Jet::from_slots(&b, &slots);
            let (want, tight) = match sph_order(*f) {
                Some(n) => {
                    let (w, t, _) = model_point(*f, &jet, &b, &sph_tight(n, x0));
                    (w, t)
                }
                None => {
                    let (w, t, _) = model_point(*f, &jet, &b, &|g: &[f64]| taylor::majorant(*f, x0, &g.to_vec()).iter().map(|v| 2.0 * v).collect());
                    (w, t)
                }
            };
            judge(&mut acc, K, u, pname, f.short(), tname, &b, &got, &want, &tight, None, floor, &case);
            if rep == 0 && pi % 37 == 0 && tindex % 7 == 0 {
                acc.sample(|| json!({"type": tname, "point": pname, "x_slots": floats(&slots), "got": floats(&got), "true": floats(&want)}));
            }
        }
    }
    // atan2 on both axes away from the origin
    for (ai, (yv, xv, aname)) in [
        (0.5, 0.0, "y-axis+"), (2.0, -0.0, "y-axis+ x=-0"), (-0.5, 0.0, "y-axis-"), (-2.0, -0.0, "y-axis- x=-0"),
        (0.0, 0.5, "x-axis+"), (-0.0, 2.0, "x-axis+ y=-0"), (0.0, -0.5, "x-axis-"), (-0.0, -2.0, "x-axis- y=-0"),
        (5e-324, -2.0, "x-axis- y=denormal"), (-5e-324, -0.5, "x-axis- y=-denormal"), (2.0, 5e-324, "y-axis x=denormal"),
    ]
    .iter()
    .enumerate()
    {
        for rep in 0..draws * 2 {
            idx += 1;
            if idx % nshards as u64 != shard as u64 {
                continue;
            }
            let mut rng = Rng::stream(ctx.seed, 1000 + tindex * 400 + 390 + ai as u64, rep);
            let shape = T::shape((1 + rng.below(3), 1 + rng.below(2)));
            let b = Basis::new(&shape);
            let style = (rep as usize) % STYLES.len();
            let (yv, xv) = if T::IS_F32 { (*yv as f32 as f64, *xv as f32 as f64) } else { (*yv, *xv) };
            let mut ys = gen_slots(&mut rng, &b, yv, style, T::IS_F32);
            let mut xs = gen_slots(&mut rng, &b, xv, 0, T::IS_F32);
            ys[0] = yv;
            xs[0] = xv;
            let y: T = build_all(&shape, &ys);
            let x: T = build_all(&shape, &xs);
            let case = || json!({"type": tname, "point": format!("atan2@{}", aname), "y_slots": floats(&ys), "x_slots": floats(&xs)});
            acc.observe(&format!("atan2@{}|{}|{}", aname, tname, STYLES[style]), true);
            let got = match guarded(|| y.atan2(x)) {
                Ok(g) => parts(&g, &shape),
                Err(m) => {
                    acc.violate(format!("atan2:{}:panic", tname), format!("atan2 on {} panicked: {}", tname, m), case());
                    continue;
                }
            };
            let m = tr_atan2(&Tr::exact(Jet::from_slots(&b, &ys), &b), &Tr::exact(Jet::from_slots(&b, &xs), &b), &b);
            let (want, tight) = m.slots(&b);
            judge(&mut acc, K, u, &format!("atan2@{}", aname), "atan2", tname, &b, &got, &want, &tight, None, if T::IS_F32 { 3e-42 } else { 1e-320 }, &case);
        }
    }
    acc
}

fn check_bessel<T: Jetty<F = f64> + BesselDual>(tname: &str, ctx: &Ctx, shard: usize, nshards: usize, tindex: u64) -> Acc {
    let mut acc = Acc::new();
    let u = unit_roundoff::<T>();
    let shape = T::shape((0, 0));
    let b = Basis::new(&shape);
    let mut pts: Vec<(f64, String)> = vec![(0.0, "0".into()), (-0.0, "-0".into())];
    for s in [1.0, -1.0] {
        pts.push((s * 5e-324, "denormal".into()));
        pts.push((s * 1e-300, "1e-300".into()));
        for c in [1e-5, 0.5, 5.0] {
            for k in [-2i64, -1, 0, 1, 2] {
                pts.push((s * ulp_nb(c, k, false), format!("{}{:+}ulp", c, k)));
            }
        }
    }
    let mut idx = 0u64;
    for (fi, f) in [Func::BesselJ0, Func::BesselJ1, Func::BesselJ2].iter().enumerate() {
        for (pi, (x0, pname)) in pts.iter().enumerate() {
            for rep in 0..ctx.n(24, 12000) {
                idx += 1;
                if idx % nshards as u64 != shard as u64 {
                    continue;
                }
                let mut rng = Rng::stream(ctx.seed, 1900 + tindex * 400 + fi as u64 * 100 + pi as u64, rep);
                let style = (rep as usize) % STYLES.len();
                let mut slots = gen_slots(&mut rng, &b, *x0, style, false);
                slots[0] = *x0;
                let x: T = build_all(&shape, &slots);
                let pn = format!("{}@{}", f.short(), pname);
                let case = || json!({"type": tname, "point": pn, "x_slots": floats(&slots), "x_hex": ndv_core::hex(*x0)});
                acc.observe(&format!("{}|{}|{}", pn, tname, STYLES[style]), style != 2);
                let got = match guarded(|| apply_bessel(*f, x)) {
                    Ok(g) => parts(&g, &shape),
                    Err(m) => {
                        acc.violate(format!("{}:{}:panic", f.short(), tname), format!("{} on {} panicked: {}", pn, tname, m), case());
                        continue;
                    }
                };
                ndv_core::evlog::log_unary("C10", tname, *f, &b, &slots, &got, false);
                let (want, tight, _) = model_point(*f, &Jet::from_slots(&b, &slots), &b, &bessel_tight(8.0));
                judge(&mut acc, K, u, &pn, f.short(), tname, &b, &got, &want, &tight, None, 1e-300, &case);
            }
        }
    }
    acc
}

fn main() {
    let ctx = Ctx::from_args("C10");
    ndv_checks::warm_up_f32();
    let acc = ctx.parallel(|shard, nshards| {
        let mut acc = Acc::new();
        let mut t = 0u64;
        macro_rules! go {
            ($ty:ty, $name:expr) => {
                t += 1;
                acc.merge(check_type::<$ty>($name, &ctx, shard, nshards, t));
            };
        }
        ndv_core::zoo_all!(go);
        go!(ndv_core::zoo::D3D2_64, "Dual3<Dual2_64>");
        go!(ndv_core::zoo::D3D3_64, "Dual3<Dual3_64>");
        go!(ndv_core::zoo::HDHD64, "HyperDual<HyperDual64>");
        go!(ndv_core::zoo::DD32, "Dual<Dual32>");
        go!(ndv_core::zoo::D2D32, "Dual2<Dual32>");
        // vector types over dual elements (their container arithmetic asks `is_zero()` of elements)
        go!(ndv_core::zoo::DVD2_64, "DualVec<Dual64,2>");
        go!(ndv_core::zoo::D2VD2_64, "Dual2Vec<Dual64,2>");
        go!(ndv_core::zoo::HDVD_64, "HyperDualVec<Dual64,2,2>");
        go!(ndv_core::zoo::DVDD_64, "DualVec<Dual64,Dyn>");
        go!(ndv_core::zoo::DDV2_64, "Dual<DualSVec64<2>>");
        macro_rules! gob {
            ($ty:ty, $name:expr) => {
                t += 1;
                acc.merge(check_bessel::<$ty>($name, &ctx, shard, nshards, t));
            };
        }
        ndv_core::zoo_scalar64!(gob);
        gob!(DualSVec64<2>, "DualSVec64<2>");
        gob!(Dual2SVec64<2>, "Dual2SVec64<2>");
        gob!(HyperDualSVec64<2, 2>, "HyperDualSVec64<2,2>");
        gob!(ndv_core::zoo::DD64, "Dual<Dual64>");
        gob!(ndv_core::zoo::D2D2_64, "Dual2<Dual2_64>");
        gob!(ndv_core::zoo::D3D64, "Dual3<Dual64>");
        gob!(ndv_core::zoo::HDHD64, "HyperDual<HyperDual64>");
        gob!(ndv_core::zoo::D3D3_64, "Dual3<Dual3_64>");
        let _ = t;
        acc
    });
    let pts: std::collections::BTreeSet<String> = acc.classes.keys().map(|k| k.split('|').next().unwrap().to_string()).collect();
    let mut extra = serde_json::Map::new();
    extra.insert("points_observed".into(), json!(pts));
    extra.insert("K".into(), json!(K));
    let required = vec![(format!("at least 150 distinct (function, point) pairs observed (seen {})", pts.len()), pts.len() >= 150)];
    ctx.finish(
        acc,
        "class = (function@point, type, part style); non-trivial = derivative parts not all zero. The point set is enumerated completely per type (exhaustive over (function, point, type)); derivative parts are random draws. Points: powi(0, n) n = 0..8 at +-0 and denormals; powf(0, p) for integer p = 0..7 and p in {1.5,...,6.5} exceeding the order of the type; cos, cosh (f' = 0) and sin, sinh, tan, tanh, atan, asin, asinh, atanh (f'' = 0) at +-0; exp_m1 / ln_1p at +-0, denormals and +-{1e-300, 1e-40, eps/4, 1e-10} (f32: 1e-30, 1e-12, eps/4, 1e-5); sph_j0/1/2 at +-0, denormals, eps/2, eps -1/0/+1 ulp, 2 eps, 1e-4, 1e-2, 1 -2..+2 ulp (the series/closed-form switch), both signs; bessel_j0/1/2 at +-0, denormals, 1e-300, and 1e-5 / 0.5 / 5 with -2..+2 ulp, both signs; atan2 on both axes (both signs of the zero coordinate, denormal neighbours).",
        &["truth from analytically known Taylor coefficients at the point (binomial for powers, Maclaurin series for the Bessel families, complex-log series for atan2); tolerance K*u*sum|terms| with an absolute floor at the denormal level", "orders above 6 (three or more nested levels of higher-order types) are outside the enumerated set"],
        extra,
        &required,
    );
}
