//! C12 — linear algebra over dual numbers differentiates implicitly defined results.
//! Monitor: the crate's LU / Jacobi routines (ndarray, feature `linalg`) and nalgebra's generic
//! decompositions over dual scalars are run on generated matrices with controlled conditioning,
//! arbitrary derivative parts and every kind of row order; the outputs are plugged into the
//! defining identities, which are evaluated in the reference model algebra part by part:
//! A x = b, A A^-1 = I, det against the cofactor expansion (Jacobi's formula in every part),
//! A V = V diag(lambda), V^T V = I (Hellmann-Feynman in the first-order parts), ascending order,
//! Euclidean norm; singular real parts must be reported as singular.

use nalgebra::{DMatrix, DVector, RealField};
use ndarray::{Array1, Array2};
use ndv_core::evidence::{floats, guarded, Acc, Ctx};
use ndv_core::jetty::*;
use ndv_core::model::Jet;
use ndv_core::zoo::*;
use ndv_core::{Basis, Rng};
use num_dual::linalg::{jacobi_eigenvalue, norm, smallest_ev, LU};
use serde_json::json;

const K: f64 = 64.0;
const K3_SIG: &str = "eigen:real-part-reducible-with-derivative-coupling";
const K4_SIG: &str = "nalgebra-symmetric_eigen:derivative-parts-converge-later-than-the-real-part(relative-residual<=1e-6/5e-2/0.5-by-order)";
/// relative residual up to which a miss of the rounding-level bound is attributed to K4
const K4_BAND: f64 = 1.0;
const K6_SIG: &str = "nalgebra-symmetric_eigen:real-part-has-zero-offdiagonal-entries-with-derivative-parts";
const K5_SIG: &str = "jacobi_eigenvalue:derivative-parts-converge-later-than-the-real-part(relative-residual<=1e-6/5e-2/0.5-by-order)";

type J = Jet<f64>;

// ------------------------------------------------------------------ plain f64 helpers
fn orthogonal(rng: &mut Rng, n: usize) -> Vec<Vec<f64>> {
    // Gram-Schmidt on a random matrix
    loop {
        let mut q: Vec<Vec<f64>> = (0..n).map(|_| (0..n).map(|_| rng.range(-1.0, 1.0)).collect()).collect();
        let mut ok = true;
        for i in 0..n {
            for j in 0..i {
                let d: f64 = (0..n).map(|k| q[i][k] * q[j][k]).sum();
                for k in 0..n {
                    q[i][k] -= d * q[j][k];
                }
            }
            let nr: f64 = q[i].iter().map(|v| v * v).sum::<f64>().sqrt();
            if nr < 0.2 {
                ok = false;
                break;
            }
            for k in 0..n {
                q[i][k] /= nr;
            }
        }
        if ok {
            return q;
        }
    }
}

/// real part with singular values in [1, kappa]
fn conditioned(rng: &mut Rng, n: usize, kappa: f64) -> Vec<Vec<f64>> {
    let (q1, q2) = (orthogonal(rng, n), orthogonal(rng, n));
    let s: Vec<f64> = (0..n).map(|i| if i == 0 { kappa } else if i == n - 1 { 1.0 } else { rng.logu(1.0, kappa.max(1.0 + 1e-9)) } * rng.sign()).collect();
    (0..n).map(|i| (0..n).map(|j| (0..n).map(|k| q1[i][k] * s[k] * q2[j][k]).sum()).collect()).collect()
}

/// symmetric real part with eigenvalue gaps >= 0.25
fn symmetric(rng: &mut Rng, n: usize) -> Vec<Vec<f64>> {
    let q = orthogonal(rng, n);
    let mut lam = Vec::with_capacity(n);
    let mut l = rng.range(-3.0, -1.0);
    for _ in 0..n {
        lam.push(l);
        l += rng.range(0.25, 1.2);
    }
    rng.shuffle(&mut lam);
    (0..n).map(|i| (0..n).map(|j| (0..n).map(|k| q[i][k] * lam[k] * q[j][k]).sum()).collect()).collect()
}

/// symmetric real part that is irreducible but has exact-zero off-diagonal entries (a tridiagonal or
/// arrow pattern, randomly relabelled); distinct diagonal, small couplings -> well separated
/// eigenvalues. The zero entries still get derivative parts.
fn sparse_symmetric(rng: &mut Rng, n: usize) -> Vec<Vec<f64>> {
    let mut a = vec![vec![0.0; n]; n];
    let mut d = rng.range(-3.0, -1.0);
    for i in 0..n {
        a[i][i] = d;
        d += rng.range(0.6, 1.2);
    }
    let arrow = rng.bool();
    for i in 1..n {
        let j = if arrow { 0 } else { i - 1 };
        let c = rng.sign() * rng.range(0.1, 0.3);
        a[i][j] = c;
        a[j][i] = c;
    }
    // random relabelling keeps symmetry and the spectrum
    let mut perm: Vec<usize> = (0..n).collect();
    rng.shuffle(&mut perm);
    (0..n).map(|i| (0..n).map(|j| a[perm[i]][perm[j]]).collect()).collect()
}

/// tridiagonal Toeplitz real part: bit-identical diagonal entries and one off-diagonal value of either
/// sign (e.g. the Laplacian [[2,-1],[-1,2]]); eigenvalues d + 2c cos(k pi/(n+1)) are distinct.  The
/// rotation angle of the first Jacobi sweep is then exactly +-0 in the real part while its
/// derivative parts are not.
fn equal_diagonal(rng: &mut Rng, n: usize) -> Vec<Vec<f64>> {
    let d = *rng.choose(&[2.0, -1.5, 0.0, 3.25]);
    let c = rng.sign() * *rng.choose(&[1.0, 0.75, 1.5]);
    let mut a = vec![vec![0.0; n]; n];
    for i in 0..n {
        a[i][i] = d;
        if i + 1 < n {
            a[i][i + 1] = c;
            a[i + 1][i] = c;
        }
    }
    a
}

/// the n x n array with logical entries f(i, j) in one of three memory layouts
fn with_layout<T: Clone>(n: usize, layout: u64, f: impl Fn(usize, usize) -> T) -> Array2<T> {
    match layout {
        0 => Array2::from_shape_fn((n, n), |(i, j)| f(i, j)),
        1 => Array2::from_shape_fn((n, n), |(i, j)| f(j, i)).reversed_axes(),
        _ => Array2::from_shape_fn((n, 2 * n), |(i, j)| f(i, j / 2)).slice_move(ndarray::s![.., ..;2]),
    }
}

/// pivoting path of partial pivoting on the real part (harness-side classification)
fn pivot_path(a: &[Vec<f64>]) -> (usize, Vec<usize>) {
    let n = a.len();
    let mut m: Vec<Vec<f64>> = a.to_vec();
    let mut swaps = 0;
    let mut seq = Vec::new();
    for i in 0..n {
        let mut imax = i;
        let mut best = 0.0;
        for k in i..n {
            if m[k][i].abs() > best {
                best = m[k][i].abs();
                imax = k;
            }
        }
        seq.push(imax);
        if imax != i {
            m.swap(i, imax);
            swaps += 1;
        }
        if best == 0.0 {
            break;
        }
        for j in i + 1..n {
            let l = m[j][i] / m[i][i];
            for k in i..n {
                m[j][k] -= l * m[i][k];
            }
        }
    }
    (swaps, seq)
}

// ------------------------------------------------------------------ jets
struct Mats<T> {
    vals: Vec<Vec<T>>,
    jets: Vec<Vec<J>>,
}

fn make_matrix<T: Jetty>(rng: &mut Rng, re: &[Vec<f64>], b: &Basis, shape: &ndv_core::Shape, sym: bool, deriv_scale: f64) -> Mats<T> {
    let n = re.len();
    let ns = b.nslots();
    let mut slots: Vec<Vec<Vec<f64>>> = vec![vec![vec![0.0; ns]; n]; n];
    for i in 0..n {
        for j in 0..n {
            if sym && j < i {
                slots[i][j] = slots[j][i].clone();
                continue;
            }
            let mut dv = vec![0.0; b.n()];
            dv[0] = re[i][j];
            for d in dv.iter_mut().skip(1) {
                *d = rng.part() * deriv_scale;
            }
            slots[i][j] = b.slot_mono.iter().map(|&m| dv[m]).collect();
        }
    }
    let vals = (0..n).map(|i| (0..n).map(|j| build_all::<T>(shape, &slots[i][j])).collect()).collect();
    let jets = (0..n).map(|i| (0..n).map(|j| Jet::from_slots(b, &slots[i][j])).collect()).collect();
    Mats { vals, jets }
}

/// column vector with arbitrary parts (stored as n x 1 lists)
fn make_vector<T: Jetty>(rng: &mut Rng, n: usize, b: &Basis, shape: &ndv_core::Shape) -> Mats<T> {
    let mut vals = Vec::new();
    let mut jets = Vec::new();
    for _ in 0..n {
        let mut dv = vec![0.0; b.n()];
        for d in dv.iter_mut() {
            *d = rng.part();
        }
        let s: Vec<f64> = b.slot_mono.iter().map(|&m| dv[m]).collect();
        vals.push(vec![build_all::<T>(shape, &s)]);
        jets.push(vec![Jet::from_slots(b, &s)]);
    }
    Mats { vals, jets }
}

fn to_jet<T: Jetty>(x: &T, b: &Basis, shape: &ndv_core::Shape) -> Option<J> {
    let p = parts(x, shape);
    if p.iter().any(|v| !v.is_finite()) {
        return None;
    }
    Some(Jet::from_slots(b, &p))
}

/// |r| <= tol * m coefficient-wise; returns the worst ratio r / (u m)
fn residual_ok(r: &J, m: &J, tol_units: f64, u: f64, floor: f64) -> Result<f64, (usize, f64, f64)> {
    let mut worst = 0.0f64;
    for i in 0..r.c.len() {
        let allowed = tol_units * u * m.c[i] + floor;
        if !(r.c[i].abs() <= allowed) {
            return Err((i, r.c[i], allowed));
        }
        if m.c[i] > 0.0 {
            worst = worst.max(r.c[i].abs() / (u * m.c[i]));
        }
    }
    Ok(worst)
}

/// coefficient-wise maximum (norm-wise magnitude of an identity: backward errors of the
/// factorisations are norm-wise, not entry-wise)
fn jmax(a: &J, b: &J) -> J {
    Jet { c: a.c.iter().zip(&b.c).map(|(x, y)| x.max(*y)).collect() }
}

/// residuals R_ij = sum_k A_ik X_kj - B_ij with one norm-wise magnitude for the whole identity
fn identity_residuals(a: &[Vec<J>], x: &[Vec<J>], rhs: &dyn Fn(usize, usize) -> J, b: &Basis) -> (Vec<(usize, usize, J)>, J) {
    let n = a.len();
    let cols = if x.is_empty() { 0 } else { x[0].len() };
    let mut out = Vec::new();
    let mut mmax = Jet::zero(b);
    for i in 0..n {
        for j in 0..cols {
            let bij = rhs(i, j);
            let mut r = bij.neg();
            let mut m = bij.abs();
            for k in 0..n {
                r = r.add(&a[i][k].mul(&x[k][j], b));
                m = m.add(&a[i][k].abs().mul(&x[k][j].abs(), b));
            }
            mmax = jmax(&mmax, &m);
            out.push((i, j, r));
        }
    }
    (out, mmax)
}

/// determinant by cofactor expansion in the model algebra, with the sum of absolute terms
fn det_jets(a: &[Vec<J>], b: &Basis) -> (J, J) {
    let n = a.len();
    if n == 1 {
        return (a[0][0].clone(), a[0][0].abs());
    }
    let mut d = Jet::zero(b);
    let mut m = Jet::zero(b);
    for j in 0..n {
        let minor: Vec<Vec<J>> = (1..n).map(|i| (0..n).filter(|k| *k != j).map(|k| a[i][k].clone()).collect()).collect();
        let (dm, mm) = det_jets(&minor, b);
        let t = a[0][j].mul(&dm, b);
        d = if j % 2 == 0 { d.add(&t) } else { d.sub(&t) };
        m = m.add(&a[0][j].abs().mul(&mm, b));
    }
    (d, m)
}

/// Euclidean norm against the tracked model
#[allow(clippy::too_many_arguments)]
fn check_norm<T>(acc: &mut Acc, what: &str, tname: &str, got: &[f64], x: &Mats<T>, n: usize, b: &Basis, u: f64, case: &dyn Fn() -> serde_json::Value) {
    use ndv_core::track::Tr;
    ndv_core::track::set_u(u);
    let mut s = Tr::constant(b, 0.0);
    for i in 0..n {
        let t = Tr::exact(x.jets[i][0].clone(), b);
        s = s.add(&t.mul(&t, b));
    }
    if s.re() == 0.0 {
        return; // the zero vector: the norm is not differentiable there
    }
    let m = s.func(ndv_core::Func::Sqrt, b);
    let (want, mag) = m.slots(b);
    for k in 0..got.len() {
        if !((got[k] - want[k]).abs() <= K * u * mag[k]) {
            acc.violate(format!("{}:{}", what, tname), format!("{} on {} part {}: got {:e}, sqrt(sum x_i^2) = {:e} (allowed deviation {:e})", what, tname, k, got[k], want[k], K * u * mag[k]), case());
            return;
        }
    }
}

/// A V = V diag(lambda), V^T V = I in every part, norm-wise magnitudes. The real part must be at
/// rounding level. Derivative parts that miss the rounding-level bound but stay within `band`
/// (relative) are attributed to the listed finding `lag_sig` (convergence is decided on real parts,
/// so derivative parts converge later); anything beyond is reported under `base_sig`.
#[allow(clippy::too_many_arguments)]
fn check_eigen(acc: &mut Acc, what: &str, base_sig: String, lag_sig: &str, band: f64, a: &[Vec<J>], lam: &[J], v: &[Vec<J>], b: &Basis, tol: f64, u: f64, ecase: &dyn Fn() -> serde_json::Value) {
    let n = a.len();
    let mut res: Vec<(String, J)> = Vec::new();
    let mut mm = Jet::zero(b);
    for i in 0..n {
        for j in 0..n {
            let mut r = v[i][j].mul(&lam[j], b).neg();
            let mut m = v[i][j].abs().mul(&lam[j].abs(), b);
            let mut r2 = Jet::constant(b, if i == j { -1.0 } else { 0.0 });
            let mut m2 = Jet::constant(b, 1.0);
            for k in 0..n {
                r = r.add(&a[i][k].mul(&v[k][j], b));
                m = m.add(&a[i][k].abs().mul(&v[k][j].abs(), b));
                r2 = r2.add(&v[k][i].mul(&v[k][j], b));
                m2 = m2.add(&v[k][i].abs().mul(&v[k][j].abs(), b));
            }
            mm = jmax(&mm, &jmax(&m, &m2));
            res.push((format!("A V = V diag(lambda), entry ({},{})", i, j), r));
            res.push((format!("V^T V = I, entry ({},{})", i, j), r2));
        }
    }
    // worst relative residual per derivative order
    let maxdeg = b.max_deg;
    let mut worst = vec![0.0f64; maxdeg + 1];
    let mut first: Option<(String, usize, f64, f64)> = None;
    for (nm, r) in &res {
        for cc in 0..r.c.len() {
            if mm.c[cc] > 0.0 {
                let d = b.deg[cc];
                worst[d] = worst[d].max(r.c[cc].abs() / mm.c[cc]);
            }
        }
        if let Err((c, rv, al)) = residual_ok(r, &mm, tol, u, 1e-300) {
            if first.is_none() || b.deg[c] == 0 {
                first = Some((nm.clone(), c, rv, al));
            }
        }
    }
    let short = what.split(" on ").next().unwrap_or(what).to_string();
    for (d, w) in worst.iter().enumerate().skip(1) {
        acc.maxi(&format!("max_relative_residual[{}][order{}]", short, d), *w);
    }
    if let Some((nm, c, rv, al)) = first {
        // attribution to the listed finding: real part at rounding level, and the derivative parts
        // within the band of their order (the lag grows with the order, see DESIGN.md 7.3)
        let real_ok = res.iter().all(|(_, r)| r.c[0].abs() <= tol * u * mm.c[0] + 1e-300);
        // sizes 7..12 lie outside the property's quantifier (1..6); they are run because size-dependent
        // code paths change there, but the third-order parts of the unchanged Jacobi routine are not
        // converged at all at n = 12 (relative residual ~1): the lag finding is not banded there
        let in_band = real_ok && worst.iter().enumerate().skip(1).all(|(d, w)| *w <= if n > 6 && d >= 2 { f64::INFINITY } else { band_for(band, d) });
        let sig = if in_band { lag_sig.to_string() } else { format!("{}:deg{}", base_sig, b.deg[c]) };
        acc.violate(sig, format!("{} (n={}): {} part {}: residual {:e}, rounding-level allowance {:e}; worst relative residual per order {:?}", what, n, nm, b.mono_name(c), rv, al, worst), ecase());
    }
}

/// allowed relative residual of a derivative part of order d under the lag findings K4/K5
fn band_for(scale: f64, d: usize) -> f64 {
    if !scale.is_finite() {
        return f64::INFINITY;
    }
    match d {
        0 => 0.0,
        1 => 1e-6 * scale,
        2 => 5e-2 * scale,
        _ => 0.5 * scale,
    }
}

fn kappa_pow(kappa: f64, deg: usize) -> f64 {
    kappa.powi((deg as i32 + 1).min(3))
}

#[derive(Clone, Copy, PartialEq, Debug)]
enum RowOrder {
    AsIs,
    Random,
    Reversed,
    Cyclic,
    LargestLast,
}

fn reorder(rng: &mut Rng, a: &mut Vec<Vec<f64>>, o: RowOrder) {
    let n = a.len();
    match o {
        RowOrder::AsIs => {}
        RowOrder::Random => rng.shuffle(a),
        RowOrder::Reversed => a.reverse(),
        RowOrder::Cyclic => a.rotate_left(1 + rng.below(n.max(2) - 1)),
        RowOrder::LargestLast => a.sort_by(|x, y| x[0].abs().partial_cmp(&y[0].abs()).unwrap()),
    }
}

// ------------------------------------------------------------------ the crate's own routines (ndarray)
fn check_crate<T: Jetty<F = f64> + Copy>(tname: &str, ctx: &Ctx, shard: usize, nshards: usize, tindex: u64) -> Acc {
    let mut acc = Acc::new();
    let shape = T::shape((0, 0));
    let b = Basis::new(&shape);
    let u = unit_roundoff::<T>();
    let maxdeg = b.max_deg;
    for ci in 0..ctx.n(1500, 600000) {
        if ci % nshards as u64 != shard as u64 {
            continue;
        }
        let mut rng = Rng::stream(ctx.seed, 1200 + tindex, ci);
        // sizes 1..6, and one case in eight beyond (7..12): blocked / unrolled variants change there
        let n = if ci % 8 >= 6 { 7 + rng.below(6) } else { 1 + rng.below(6) };
        let kappa = *rng.choose(&[1.0, 3.0, 10.0, 100.0]);
        let order = *rng.choose(&[RowOrder::AsIs, RowOrder::Random, RowOrder::Reversed, RowOrder::Cyclic, RowOrder::LargestLast]);
        // one case in six: a structurally sparse real part (upper triangular, unit-scale diagonal,
        // small couplings -> kappa of a few) whose derivative parts are dense
        let triangular = ci % 6 == 4 && n >= 2;
        // one case in twelve: small-integer matrices (spring chain, min(i,j)+1, Laplacian) whose pivot
        // candidates tie exactly in magnitude, also with entries already eliminated above them
        let integer = ci % 12 == 9 && n >= 2;
        let (n, kappa) = if integer { (n.min(8), (4 * n.min(8) * n.min(8)) as f64) } else { (n, kappa) };
        let mut re: Vec<Vec<f64>> = if integer {
            match rng.below(3) {
                0 => (0..n).map(|i| (0..n).map(|j| if i == j { if i == 0 { 1.0 } else { 2.0 } } else if i + 1 == j || j + 1 == i { -1.0 } else { 0.0 }).collect()).collect(),
                1 => (0..n).map(|i| (0..n).map(|j| (i.min(j) + 1) as f64).collect()).collect(),
                _ => (0..n).map(|i| (0..n).map(|j| if i == j { 2.0 } else if i + 1 == j || j + 1 == i { -1.0 } else { 0.0 }).collect()).collect(),
            }
        } else if triangular {
            (0..n).map(|i| (0..n).map(|j| if j < i { 0.0 } else if j == i { rng.sign() * rng.range(1.0, 2.0) } else { rng.range(-0.3, 0.3) }).collect()).collect()
        } else {
            conditioned(&mut rng, n, kappa)
        };
        reorder(&mut rng, &mut re, order);
        // exact power-of-two scaling: conditioning is unchanged, absolute magnitudes are not
        let scale = (2.0f64).powi(*rng.choose(&[0, 0, 0, -70, -30, 30, 60]));
        for row in re.iter_mut() {
            for v in row.iter_mut() {
                *v *= scale;
            }
        }
        let (swaps, seq) = pivot_path(&re);
        let a: Mats<T> = make_matrix(&mut rng, &re, &b, &shape, false, scale);
        let mut rhs: Mats<T> = make_vector(&mut rng, n, &b, &shape);
        // one case in eight: a right-hand side whose real parts are all exactly zero while its derivative
        // parts are not (implicit differentiation at a converged root)
        let zero_rhs = ci % 8 == 3;
        if zero_rhs {
            for i in 0..n {
                let mut sl = parts(&rhs.vals[i][0], &shape);
                sl[0] = 0.0;
                rhs.vals[i][0] = build_all::<T>(&shape, &sl);
                rhs.jets[i][0] = Jet::from_slots(&b, &sl);
            }
        }
        // memory layout of the input array: row-major, column-major, non-contiguous (every second
        // column of a wider array) -- the routines index logically, so the answer must not change
        let layout = ci % 3;
        let arr = with_layout(n, layout, |i, j| a.vals[i][j]);
        // the right-hand side in three layouts as well: standard, negative stride, every second entry
        let bvec = match (ci / 3) % 3 {
            0 => Array1::from_shape_fn(n, |i| rhs.vals[i][0]),
            1 => {
                let mut r = Array1::from_shape_fn(n, |i| rhs.vals[n - 1 - i][0]);
                r.invert_axis(ndarray::Axis(0));
                r
            }
            _ => Array1::from_shape_fn(2 * n, |i| rhs.vals[i / 2][0]).slice_move(ndarray::s![..;2]),
        };
        let case = || json!({"type": tname, "n": n, "kappa": kappa, "scale": scale, "row_order": format!("{:?}", order), "A_parts": a.vals.iter().map(|r| r.iter().map(|x| floats(&parts(x, &shape))).collect::<Vec<_>>()).collect::<Vec<_>>(), "b_parts": rhs.vals.iter().map(|r| floats(&parts(&r[0], &shape))).collect::<Vec<_>>()});
        let class = format!("LU|{}|n{}|{}{}{}|swaps-{}|{}", tname, if n > 6 { "7-12".to_string() } else { n.to_string() }, format!("{:?}", order), if scale != 1.0 { "-scaled" } else { "" }, if integer { "-integer-ties" } else if triangular { "-triangular-real-part" } else { "" }, if swaps % 2 == 0 { "even" } else { "odd" }, ["row-major", "column-major", "non-contiguous"][layout as usize]);
        acc.observe(&class, n >= 2 && swaps >= 1);
        acc.count(&format!("pivot_sequence[{}:{:?}]", n, seq), 1);
        let lu = match guarded(|| LU::new(arr.clone())) {
            Ok(Ok(lu)) => lu,
            Ok(Err(_)) => {
                acc.violate(format!("LU::new:{}", tname), format!("LU::new reports a well-conditioned {}x{} matrix (kappa {}) as singular", n, n, kappa), case());
                continue;
            }
            Err(m) => {
                acc.violate(format!("LU::new:{}:panic", tname), format!("LU::new panicked: {}", m), case());
                continue;
            }
        };
        let tol_all = K * n as f64 * kappa_pow(kappa, maxdeg) * ((maxdeg + 1) * (maxdeg + 1) * (maxdeg + 1)) as f64;
        // A x = b
        if let Ok(x) = guarded(|| lu.solve(&bvec)) {
            let xj: Option<Vec<J>> = x.iter().map(|v| to_jet(v, &b, &shape)).collect();
            match xj {
                None => acc.violate(format!("solve:{}:nonfinite", tname), format!("LU::solve on {} ({}x{}) returned a non-finite part", tname, n, n), case()),
                Some(xj) => {
                    let xcol: Vec<Vec<J>> = xj.iter().map(|v| vec![v.clone()]).collect();
                    let (res, mm) = identity_residuals(&a.jets, &xcol, &|i, _| rhs.jets[i][0].clone(), &b);
                    for (i, _, r) in res {
                        match residual_ok(&r, &mm, tol_all, u, 0.0) {
                            Ok(w) => acc.ratio(K * w / tol_all, || format!("solve {} (in units of K = 64 allowed)", tname)),
                            Err((c, rv, al)) => {
                                acc.violate(format!("solve:{}:deg{}", tname, b.deg[c]), format!("A x = b violated on {} (n={}, kappa={}, {:?}): row {} part {}: residual {:e}, allowed {:e}", tname, n, kappa, order, i, b.mono_name(c), rv, al), case());
                                break;
                            }
                        }
                    }
                }
            }
        }
        // A A^-1 = I
        if let Ok(inv) = guarded(|| lu.inverse()) {
            let ij: Option<Vec<Vec<J>>> = (0..n).map(|i| (0..n).map(|j| to_jet(&inv[(i, j)], &b, &shape)).collect()).collect();
            match ij {
                None => acc.violate(format!("inverse:{}:nonfinite", tname), format!("LU::inverse on {} returned a non-finite part", tname), case()),
                Some(ij) => {
                    acc.observe(&format!("inverse|{}|n{}|{:?}", tname, n, order), n >= 3);
                    let (res, mm) = identity_residuals(&a.jets, &ij, &|i, j| Jet::constant(&b, if i == j { 1.0 } else { 0.0 }), &b);
                    for (i, j, r) in res {
                        if let Err((c, rv, al)) = residual_ok(&r, &mm, tol_all, u, 0.0) {
                            acc.violate(format!("inverse:{}:deg{}", tname, b.deg[c]), format!("A A^-1 = I violated on {} (n={}, kappa={}, {:?}): entry ({},{}) part {}: residual {:e}, allowed {:e}", tname, n, kappa, order, i, j, b.mono_name(c), rv, al), case());
                            break;
                        }
                    }
                }
            }
        }
        // determinant against the cofactor expansion (value and every derivative part)
        if n <= 5 {
            if let Ok(d) = guarded(|| lu.determinant()) {
                acc.observe(&format!("determinant|{}|n{}|swaps-{}", tname, n, if swaps % 2 == 0 { "even" } else { "odd" }), swaps >= 1);
                match to_jet(&d, &b, &shape) {
                    None => acc.violate(format!("determinant:{}:nonfinite", tname), format!("LU::determinant on {} is non-finite", tname), case()),
                    Some(dj) => {
                        let (want, mag) = det_jets(&a.jets, &b);
                        if let Err((c, rv, al)) = residual_ok(&dj.sub(&want), &mag, 16.0 * tol_all, u, 0.0) {
                            acc.violate(format!("determinant:{}:deg{}", tname, b.deg[c]), format!("determinant on {} (n={}, kappa={}, {:?}, {} row swaps): part {} differs from the cofactor expansion by {:e} (allowed {:e}); got {:e}", tname, n, kappa, order, swaps, b.mono_name(c), rv, al, dj.c[c]), case());
                        }
                    }
                }
            }
        }
        // norm against the tracked model sqrt(sum x_i^2)
        if let Ok(nr) = guarded(|| norm(&bvec)) {
            acc.observe(&format!("norm|{}", tname), true);
            check_norm(&mut acc, "norm", tname, &parts(&nr, &shape), &rhs, n, &b, u, &case);
        }
        // hostile vectors: everything scaled by an exact power of two far below / above one, and a
        // component whose real part is exactly zero while its derivative parts are not
        {
            let variant = ci % 4;
            let sc = match variant { 0 => (2.0f64).powi(-80), 1 => (2.0f64).powi(60), _ => 1.0 };
            // one case in sixteen: a long vector (pairwise / blocked summations change behaviour there)
            let n = if ci % 16 == 11 { *rng.choose(&[33usize, 129, 200, 257]) } else { n };
            let mut hv: Mats<T> = make_vector(&mut rng, n, &b, &shape);
            let zero_at = if variant >= 2 && n >= 2 { Some(rng.below(n)) } else { None };
            for i in 0..n {
                let mut sl = parts(&hv.vals[i][0], &shape);
                for v in sl.iter_mut() {
                    *v *= sc;
                }
                if zero_at == Some(i) {
                    sl[0] = 0.0;
                }
                hv.vals[i][0] = build_all::<T>(&shape, &sl);
                hv.jets[i][0] = Jet::from_slots(&b, &sl);
            }
            let hvec = Array1::from_shape_fn(n, |i| hv.vals[i][0]);
            let kind = if n > 12 { "long-vector" } else { ["scaled-2^-80", "scaled-2^60", "zero-real-component", "zero-real-component"][variant as usize] };
            let hcase = || json!({"type": tname, "n": n, "kind": kind, "x_parts": hv.vals.iter().map(|r| floats(&parts(&r[0], &shape))).collect::<Vec<_>>()});
            if let Ok(nr) = guarded(|| norm(&hvec)) {
                acc.observe(&format!("norm|{}|{}", tname, kind), true);
                check_norm(&mut acc, &format!("norm[{}]", kind), tname, &parts(&nr, &shape), &hv, n, &b, u, &hcase);
            }
        }
        // ---- singular class: an all-zero real column (derivative parts non-zero)
        if ci % 5 == 0 && n >= 2 {
            let col = rng.below(n);
            let mut sre = re.clone();
            for row in sre.iter_mut() {
                row[col] = 0.0;
            }
            let s: Mats<T> = make_matrix(&mut rng, &sre, &b, &shape, false, scale);
            let sarr = Array2::from_shape_fn((n, n), |(i, j)| s.vals[i][j]);
            acc.observe(&format!("singular|{}|n{}|col{}", tname, n, col), true);
            match guarded(|| LU::new(sarr)) {
                Ok(Err(e)) => {
                    // "reported as singular": the error value says so
                    if !e.to_string().to_lowercase().contains("singular") {
                        acc.violate(format!("singular-message:{}", tname), format!("LU::new rejects the singular matrix with the message {:?}", e.to_string()), json!({"type": tname, "n": n}));
                    }
                }
                Ok(Ok(lu2)) => {
                    let d = lu2.determinant();
                    acc.violate(format!("singular:{}", tname), format!("LU::new accepts a {}x{} matrix whose real part has an all-zero column {} (determinant parts {:?})", n, n, col, parts(&d, &shape)), json!({"type": tname, "n": n, "zero_column": col}));
                }
                Err(m) => acc.violate(format!("singular:{}:panic", tname), format!("LU::new panicked on a singular matrix: {}", m), json!({"type": tname})),
            }
        }
        // ---- symmetric eigenproblem (Jacobi)
        if ci % 2 == 0 {
            let hostile = ci % 20 == 0 && n >= 2;
            let sre = if hostile {
                // K3: reducible real part (diagonal), blocks coupled only through derivative parts
                let mut d = vec![vec![0.0; n]; n];
                let mut l = -2.0;
                for i in 0..n {
                    d[i][i] = l;
                    l += rng.range(0.5, 1.5);
                }
                d
            } else if ci % 6 == 2 && n >= 3 {
                sparse_symmetric(&mut rng, n)
            } else if ci % 6 == 4 && n >= 2 {
                equal_diagonal(&mut rng, n)
            } else if ci % 12 == 6 && n >= 2 {
                // distinct diagonal, one common coupling: every off-diagonal entry has the same size
                let c = rng.sign() * rng.range(0.05, 0.3);
                let mut d = rng.range(-3.0, -1.0);
                let mut a = vec![vec![c; n]; n];
                for i in 0..n {
                    a[i][i] = d;
                    d += rng.range(0.5, 1.0);
                }
                a
            } else {
                symmetric(&mut rng, n)
            };
            let sparse = !hostile && ci % 6 == 2 && n >= 3;
            let eqdiag = !hostile && ci % 6 == 4 && n >= 2;
            let uniform = !hostile && ci % 12 == 6 && n >= 2;
            let escale = (2.0f64).powi(*rng.choose(&[0, 0, 0, -60, 40]));
            let sre: Vec<Vec<f64>> = sre.iter().map(|r| r.iter().map(|v| v * escale).collect()).collect();
            let s: Mats<T> = make_matrix(&mut rng, &sre, &b, &shape, true, 0.5 * escale);
            let sarr = with_layout(n, (ci / 2) % 3, |i, j| s.vals[i][j]);
            let ecase = || json!({"type": tname, "n": n, "hostile_reducible_real_part": hostile, "A_parts": s.vals.iter().map(|r| r.iter().map(|x| floats(&parts(x, &shape))).collect::<Vec<_>>()).collect::<Vec<_>>()});
            acc.observe(&format!("jacobi|{}|n{}|{}{}", tname, n, if hostile { "reducible-real-part" } else if sparse { "irreducible-with-zero-entries" } else if eqdiag { "equal-diagonal-tridiagonal" } else if uniform { "uniform-coupling" } else { "dense" }, if escale != 1.0 { "-scaled" } else { "" }), n >= 2);
            match guarded(|| jacobi_eigenvalue(sarr.clone(), 200)) {
                Ok((lam, v)) => {
                    let lj: Option<Vec<J>> = lam.iter().map(|x| to_jet(x, &b, &shape)).collect();
                    let vj: Option<Vec<Vec<J>>> = (0..n).map(|i| (0..n).map(|j| to_jet(&v[(i, j)], &b, &shape)).collect()).collect();
                    let sig = |base: String| if hostile { K3_SIG.to_string() } else { base };
                    match (lj, vj) {
                        (Some(lj), Some(vj)) => {
                            let tol = K * (n * n) as f64 * ((maxdeg + 1) * (maxdeg + 1)) as f64;
                            if hostile {
                                check_eigen(&mut acc, &format!("jacobi_eigenvalue[reducible real part] on {} with a diagonal real part and off-diagonal derivative parts", tname), K3_SIG.to_string(), K3_SIG, f64::INFINITY, &s.jets, &lj, &vj, &b, tol, u, &ecase);
                            } else {
                                check_eigen(&mut acc, &format!("jacobi_eigenvalue on {}", tname), format!("jacobi:{}", tname), K5_SIG, K4_BAND, &s.jets, &lj, &vj, &b, tol, u, &ecase);
                            }
                            if (1..n).any(|i| lj[i].c[0] < lj[i - 1].c[0]) {
                                acc.violate(format!("jacobi-order:{}", tname), format!("eigenvalues not ascending on {}: {:?}", tname, lj.iter().map(|l| l.c[0]).collect::<Vec<_>>()), ecase());
                            }
                            // smallest_ev = first eigenpair
                            if let Ok((l0, v0)) = guarded(|| smallest_ev(sarr.clone())) {
                                acc.observe(&format!("smallest_ev|{}", tname), true);
                                if parts(&l0, &shape) != parts(&lam[0], &shape) || (0..n).any(|i| parts(&v0[i], &shape) != parts(&v[(i, 0)], &shape)) {
                                    acc.violate(format!("smallest_ev:{}", tname), format!("smallest_ev differs from the first pair of jacobi_eigenvalue on {}", tname), ecase());
                                }
                            }
                        }
                        _ => acc.violate(sig(format!("jacobi:{}:nonfinite", tname)), format!("jacobi_eigenvalue on {} (n={}) returned a non-finite part", tname, n), ecase()),
                    }
                }
                Err(m) => acc.violate(format!("jacobi:{}:panic", tname), format!("jacobi_eigenvalue panicked: {}", m), ecase()),
            }
        }
        if ci == 0 {
            acc.sample(|| json!({"type": tname, "n": n, "kappa": kappa, "row_order": format!("{:?}", order), "row_swaps": swaps, "pivot_rows": seq, "A_real": re}));
        }
    }
    acc
}

// ------------------------------------------------------------------ nalgebra's generic decompositions
fn check_nalgebra<T: Jetty<F = f64> + RealField>(tname: &str, ctx: &Ctx, shard: usize, nshards: usize, tindex: u64) -> Acc {
    let mut acc = Acc::new();
    let u = unit_roundoff::<T>();
    for ci in 0..ctx.n(800, 300000) {
        if ci % nshards as u64 != shard as u64 {
            continue;
        }
        let mut rng = Rng::stream(ctx.seed, 1250 + tindex, ci);
        let shape = T::shape((1 + rng.below(3), 1));
        let b = Basis::new(&shape);
        let maxdeg = b.max_deg;
        // sizes 1..6, and one case in eight beyond (7..12): blocked / unrolled variants change there
        let n = if ci % 8 >= 6 { 7 + rng.below(6) } else { 1 + rng.below(6) };
        let kappa = *rng.choose(&[1.0, 3.0, 10.0, 100.0]);
        let order = *rng.choose(&[RowOrder::AsIs, RowOrder::Random, RowOrder::Reversed, RowOrder::Cyclic, RowOrder::LargestLast]);
        let mut re = conditioned(&mut rng, n, kappa);
        reorder(&mut rng, &mut re, order);
        let scale = (2.0f64).powi(*rng.choose(&[0, 0, 0, -70, -30, 30, 60]));
        for row in re.iter_mut() {
            for v in row.iter_mut() {
                *v *= scale;
            }
        }
        let a: Mats<T> = make_matrix(&mut rng, &re, &b, &shape, false, scale);
        let rhs: Mats<T> = make_vector(&mut rng, n, &b, &shape);
        let am = DMatrix::from_fn(n, n, |i, j| a.vals[i][j].clone());
        let bv = DVector::from_fn(n, |i, _| rhs.vals[i][0].clone());
        let case = || json!({"type": tname, "shape": shape.name(), "n": n, "kappa": kappa, "row_order": format!("{:?}", order), "A_parts": a.vals.iter().map(|r| r.iter().map(|x| floats(&parts(x, &shape))).collect::<Vec<_>>()).collect::<Vec<_>>()});
        let tol_all = K * n as f64 * kappa_pow(kappa, maxdeg) * ((maxdeg + 1) * (maxdeg + 1) * (maxdeg + 1)) as f64;
        acc.observe(&format!("nalgebra-lu|{}|n{}|{:?}", tname, n, order), n >= 2);
        // solve
        match guarded(|| am.clone().lu().solve(&bv)) {
            Ok(Some(x)) => {
                let xj: Option<Vec<J>> = x.iter().map(|v| to_jet(v, &b, &shape)).collect();
                match xj {
                    None => acc.violate(format!("nalgebra-solve:{}:nonfinite", tname), "lu().solve returned a non-finite part".into(), case()),
                    Some(xj) => {
                        let xcol: Vec<Vec<J>> = xj.iter().map(|v| vec![v.clone()]).collect();
                        let (res, mm) = identity_residuals(&a.jets, &xcol, &|i, _| rhs.jets[i][0].clone(), &b);
                        for (i, _, r) in res {
                            if let Err((c, rv, al)) = residual_ok(&r, &mm, tol_all, u, 0.0) {
                                acc.violate(format!("nalgebra-solve:{}:deg{}", tname, b.deg[c]), format!("A x = b violated with nalgebra lu().solve on {} (n={}, kappa={}): row {} part {} residual {:e} allowed {:e}", tname, n, kappa, i, b.mono_name(c), rv, al), case());
                                break;
                            }
                        }
                    }
                }
            }
            Ok(None) => acc.violate(format!("nalgebra-solve:{}", tname), format!("nalgebra lu().solve returns None for a well-conditioned matrix on {}", tname), case()),
            Err(m) => acc.violate(format!("nalgebra-solve:{}:panic", tname), format!("nalgebra lu().solve panicked: {}", m), case()),
        }
        // inverse
        match guarded(|| am.clone().try_inverse()) {
            Ok(Some(inv)) => {
                let ij: Option<Vec<Vec<J>>> = (0..n).map(|i| (0..n).map(|j| to_jet(&inv[(i, j)], &b, &shape)).collect()).collect();
                if let Some(ij) = ij {
                    let (res, mm) = identity_residuals(&a.jets, &ij, &|i, j| Jet::constant(&b, if i == j { 1.0 } else { 0.0 }), &b);
                    for (i, j, r) in res {
                        if let Err((c, rv, al)) = residual_ok(&r, &mm, tol_all, u, 0.0) {
                            acc.violate(format!("nalgebra-inverse:{}:deg{}", tname, b.deg[c]), format!("A A^-1 = I violated with nalgebra try_inverse on {} (n={}): entry ({},{}) part {} residual {:e} allowed {:e}", tname, n, i, j, b.mono_name(c), rv, al), case());
                            break;
                        }
                    }
                } else {
                    acc.violate(format!("nalgebra-inverse:{}:nonfinite", tname), "try_inverse returned a non-finite part".into(), case());
                }
            }
            Ok(None) => acc.violate(format!("nalgebra-inverse:{}", tname), format!("nalgebra try_inverse returns None for a well-conditioned matrix on {}", tname), case()),
            Err(m) => acc.violate(format!("nalgebra-inverse:{}:panic", tname), format!("try_inverse panicked: {}", m), case()),
        }
        // determinant
        if n <= 5 {
            if let Ok(d) = guarded(|| am.determinant()) {
                acc.observe(&format!("nalgebra-determinant|{}|n{}", tname, n), n >= 2);
                if let Some(dj) = to_jet(&d, &b, &shape) {
                    let (want, mag) = det_jets(&a.jets, &b);
                    if let Err((c, rv, al)) = residual_ok(&dj.sub(&want), &mag, 16.0 * tol_all, u, 0.0) {
                        acc.violate(format!("nalgebra-determinant:{}:deg{}", tname, b.deg[c]), format!("nalgebra determinant on {} (n={}): part {} differs from the cofactor expansion by {:e} (allowed {:e})", tname, n, b.mono_name(c), rv, al), case());
                    }
                } else {
                    acc.violate(format!("nalgebra-determinant:{}:nonfinite", tname), "determinant non-finite".into(), case());
                }
            }
        }
        // norm of a vector
        if let Ok(nr) = guarded(|| bv.norm()) {
            acc.observe(&format!("nalgebra-norm|{}", tname), true);
            check_norm(&mut acc, "nalgebra-norm", tname, &parts(&nr, &shape), &rhs, n, &b, u, &case);
        }
        // singular real part: try_inverse must say so
        if ci % 5 == 0 && n >= 2 {
            let col = rng.below(n);
            let mut sre = re.clone();
            for row in sre.iter_mut() {
                row[col] = 0.0;
            }
            let s: Mats<T> = make_matrix(&mut rng, &sre, &b, &shape, false, 1.0);
            let sm = DMatrix::from_fn(n, n, |i, j| s.vals[i][j].clone());
            acc.observe(&format!("nalgebra-singular|{}|n{}", tname, n), true);
            match guarded(|| sm.try_inverse()) {
                Ok(None) => {}
                Ok(Some(inv)) => {
                    if inv.iter().any(|x| parts(x, &shape).iter().any(|v| !v.is_finite())) {
                        acc.violate(format!("nalgebra-singular:{}", tname), format!("nalgebra try_inverse on {} returns a matrix with non-finite parts for a singular real part instead of None", tname), json!({"type": tname, "n": n, "zero_column": col}));
                    }
                }
                Err(m) => acc.violate(format!("nalgebra-singular:{}:panic", tname), format!("try_inverse panicked on a singular matrix: {}", m), json!({"type": tname})),
            }
        }
        // symmetric eigen / cholesky
        if ci % 2 == 0 && n >= 1 {
            let sparse = ci % 6 == 2 && n >= 3;
            // equal diagonal: only the 2x2 case has no zero off-diagonal real parts (for n >= 3 a
            // tridiagonal matrix belongs to the zero-entry class of finding K6, covered by `sparse`)
            let eqdiag = !sparse && ci % 5 == 3 && n == 2;
            let sre = if sparse { sparse_symmetric(&mut rng, n) } else if eqdiag { equal_diagonal(&mut rng, n) } else { symmetric(&mut rng, n) };
            let s: Mats<T> = make_matrix(&mut rng, &sre, &b, &shape, true, 0.5);
            let sm = DMatrix::from_fn(n, n, |i, j| s.vals[i][j].clone());
            acc.observe(&format!("nalgebra-symmetric_eigen|{}|n{}|{}", tname, n, if sparse { "irreducible-with-zero-entries" } else if eqdiag { "equal-diagonal-tridiagonal" } else { "dense" }), n >= 2);
            let ecase = || json!({"type": tname, "shape": shape.name(), "n": n, "A_parts": s.vals.iter().map(|r| r.iter().map(|x| floats(&parts(x, &shape))).collect::<Vec<_>>()).collect::<Vec<_>>()});
            match guarded(|| sm.clone().symmetric_eigen()) {
                Ok(e) => {
                    let lj: Option<Vec<J>> = e.eigenvalues.iter().map(|x| to_jet(x, &b, &shape)).collect();
                    let vj: Option<Vec<Vec<J>>> = (0..n).map(|i| (0..n).map(|j| to_jet(&e.eigenvectors[(i, j)], &b, &shape)).collect()).collect();
                    match (lj, vj) {
                        (Some(lj), Some(vj)) => {
                            // nalgebra's own convergence criterion leaves a relative residual of up to ~2.5e-11
                            // on plain f64 matrices (measured); allow 1e-9 before attributing to K4
                            // (beyond the property's sizes 1..6 nalgebra's own residual grows: 1.13e-9 relative observed at n = 10)
                            let tol = (K * (n * n) as f64 * ((maxdeg + 1) * (maxdeg + 1)) as f64).max(1e-9 / u * (n as f64 / 6.0).powi(2).max(1.0));
                            if sparse {
                                // K6: Householder tridiagonalisation takes sqrt of a sum of squares whose real part is 0
                                check_eigen(&mut acc, &format!("nalgebra symmetric_eigen[zero off-diagonal real parts] on {}", tname), format!("nalgebra-eigen:{}", tname), K6_SIG, f64::INFINITY, &s.jets, &lj, &vj, &b, tol, u, &ecase);
                            } else {
                                check_eigen(&mut acc, &format!("nalgebra symmetric_eigen on {}", tname), format!("nalgebra-eigen:{}", tname), K4_SIG, K4_BAND, &s.jets, &lj, &vj, &b, tol, u, &ecase);
                            }
                        }
                        _ => {
                            // finding K6 produces non-finite *derivative* parts (sqrt of a dual whose real part is 0)
                            // while every real part stays finite; a non-finite real part is something else
                            let real_finite = e.eigenvalues.iter().all(|x| parts(x, &shape)[0].is_finite()) && e.eigenvectors.iter().all(|x| parts(x, &shape)[0].is_finite());
                            acc.violate(
                                if sparse && real_finite { K6_SIG.to_string() } else { format!("nalgebra-eigen:{}:nonfinite{}", tname, if real_finite { "" } else { "-real-part" }) },
                                format!("nalgebra symmetric_eigen on {} (n={}{}) returned a non-finite {}", tname, n, if sparse { ", zero off-diagonal real parts" } else { "" }, if real_finite { "derivative part" } else { "real part" }),
                                ecase(),
                            )
                        }
                    }
                }
                Err(m) => acc.violate(format!("nalgebra-eigen:{}:panic", tname), format!("symmetric_eigen panicked: {}", m), ecase()),
            }
            // Cholesky of A^T A + I (positive definite): L L^T = M
            let mut pd = vec![vec![Jet::zero(&b); n]; n];
            let mut pdv: Vec<Vec<T>> = Vec::new();
            for i in 0..n {
                let mut row = Vec::new();
                for j in 0..n {
                    let mut acc_t = if i == j { T::from(1.0) } else { T::from(0.0) };
                    let mut acc_j = Jet::constant(&b, if i == j { 1.0 } else { 0.0 });
                    for k in 0..n {
                        acc_t = acc_t + s.vals[k][i].clone() * s.vals[k][j].clone();
                        acc_j = acc_j.add(&s.jets[k][i].mul(&s.jets[k][j], &b));
                    }
                    // use the type's own value as the matrix entry so that the model sees exactly the input
                    let pj = to_jet(&acc_t, &b, &shape).unwrap_or(acc_j);
                    pd[i][j] = pj;
                    row.push(acc_t);
                }
                pdv.push(row);
            }
            // symmetrise exactly
            for i in 0..n {
                for j in 0..i {
                    pdv[i][j] = pdv[j][i].clone();
                    pd[i][j] = pd[j][i].clone();
                }
            }
            let pm = DMatrix::from_fn(n, n, |i, j| pdv[i][j].clone());
            acc.observe(&format!("nalgebra-cholesky|{}|n{}", tname, n), n >= 2);
            match guarded(|| pm.cholesky()) {
                Ok(Some(ch)) => {
                    let l = ch.l();
                    let lj: Option<Vec<Vec<J>>> = (0..n).map(|i| (0..n).map(|j| to_jet(&l[(i, j)], &b, &shape)).collect()).collect();
                    if let Some(lj) = lj {
                        'c: for i in 0..n {
                            for j in 0..n {
                                let mut r = pd[i][j].neg();
                                let mut m = pd[i][j].abs();
                                for k in 0..n {
                                    r = r.add(&lj[i][k].mul(&lj[j][k], &b));
                                    m = m.add(&lj[i][k].abs().mul(&lj[j][k].abs(), &b));
                                }
                                if let Err((c, rv, al)) = residual_ok(&r, &m, K * n as f64 * 64.0, u, 1e-300) {
                                    acc.violate(format!("nalgebra-cholesky:{}:deg{}", tname, b.deg[c]), format!("L L^T = M violated with nalgebra cholesky on {} (n={}): entry ({},{}) part {} residual {:e} allowed {:e}", tname, n, i, j, b.mono_name(c), rv, al), ecase());
                                    break 'c;
                                }
                            }
                        }
                    } else {
                        acc.violate(format!("nalgebra-cholesky:{}:nonfinite", tname), "cholesky factor has a non-finite part".into(), ecase());
                    }
                }
                Ok(None) => acc.violate(format!("nalgebra-cholesky:{}", tname), format!("nalgebra cholesky fails on a positive definite matrix over {}", tname), ecase()),
                Err(m) => acc.violate(format!("nalgebra-cholesky:{}:panic", tname), format!("cholesky panicked: {}", m), ecase()),
            }
        }
    }
    acc
}

fn main() {
    let ctx = Ctx::from_args("C12");
    let acc = ctx.parallel(|shard, nshards| {
        let mut acc = Acc::new();
        let mut t = 0u64;
        macro_rules! goc {
            ($ty:ty, $name:expr) => {
                t += 1;
                acc.merge(check_crate::<$ty>($name, &ctx, shard, nshards, t));
            };
        }
        goc!(Dual64, "Dual64");
        goc!(Dual2_64, "Dual2_64");
        goc!(Dual3_64, "Dual3_64");
        goc!(HyperDual64, "HyperDual64");
        goc!(HyperHyperDual64, "HyperHyperDual64");
        goc!(DualSVec64<2>, "DualSVec64<2>");
        goc!(f64, "f64");
        macro_rules! gon {
            ($ty:ty, $name:expr) => {
                t += 1;
                acc.merge(check_nalgebra::<$ty>($name, &ctx, shard, nshards, t));
            };
        }
        gon!(Dual64, "Dual64");
        gon!(Dual2_64, "Dual2_64");
        gon!(DualSVec64<2>, "DualSVec64<2>");
        gon!(Dual2SVec64<2>, "Dual2SVec64<2>");
        gon!(DualDVec64, "DualDVec64");
        let _ = t;
        acc
    });
    let routines: std::collections::BTreeSet<String> = acc.classes.keys().map(|k| k.split('|').next().unwrap().to_string()).collect();
    let pivseq = acc.counters.keys().filter(|k| k.starts_with("pivot_sequence[")).count();
    let mut acc = acc;
    acc.counters.retain(|k, _| !k.starts_with("pivot_sequence["));
    let parities: std::collections::BTreeSet<String> = acc.classes.keys().filter(|k| k.starts_with("LU|")).filter_map(|k| k.split('|').last().map(|s| s.to_string())).collect();
    let mut extra = serde_json::Map::new();
    extra.insert("routines_observed".into(), json!(routines));
    extra.insert("distinct_pivot_row_sequences_observed".into(), json!(pivseq));
    extra.insert("permutation_parities_observed".into(), json!(parities));
    let required = vec![
        (format!("all routine families observed (seen {})", routines.len()), routines.len() >= 13),
        (format!("both permutation parities and at least 100 distinct pivot-row sequences observed (seen {})", pivseq), parities.len() >= 2 && pivseq >= 100),
    ];
    ctx.finish(
        acc,
        "class = (routine, type, size, row order / permutation parity / case kind); non-trivial = size >= 2 with at least one row exchange (LU) / size >= 2 (others). Real parts: Q1 diag(sigma) Q2^T with singular values in [1, kappa], kappa in {1,3,10,100}, presented as-is, randomly permuted, reversed, cyclically shifted and sorted with the largest pivot last; symmetric: Q diag(lambda) Q^T with gaps >= 0.25; derivative parts arbitrary (symmetric for the eigen routines); singular class: an all-zero real column with non-zero derivative parts; hostile class: diagonal real part coupled only through derivative parts.",
        &[
            "identities are evaluated in the reference model algebra on the crate's outputs; tolerance K*n*kappa^min(order+1,3)*u*sum|terms| for the linear systems and K*n*8^order*u*sum|terms| for the eigenproblems (K=64)",
            "known finding K3: Jacobi iteration decides convergence on real parts only, so a reducible real part coupled through derivative parts leaves eigenvector derivatives / second-order eigenvalue parts wrong (listed in KNOWN_FINDINGS.txt)",
        ],
        extra,
        &required,
    );
}
