//! C02 — dual arithmetic is the exact truncated Taylor algebra.
//! Monitor: + - neg * / powi recip through the real operator impls on operands from small dyadic
//! grids, compared for exact equality with the truncated polynomial algebra evaluated in exact
//! rational arithmetic. One-hot operand pairs enumerate every (monomial, monomial) interaction.

use ndv_core::basis::NONE;
use ndv_core::evidence::{floats, guarded, Acc, Ctx};
use ndv_core::gen::presence_key;
use ndv_core::jetty::*;
use ndv_core::model::{Jet, Rat, Sc};
use ndv_core::zoo::*;
use ndv_core::{Basis, Rng};
use serde_json::json;
use std::collections::BTreeSet;

#[derive(Clone, Copy, Debug, PartialEq)]
enum Op {
    Add,
    Sub,
    Neg,
    Mul,
    Div,
    Powi(i32),
    Recip,
    AddAssign,
    SubAssign,
    MulAssign,
    DivAssign,
}
impl Op {
    fn name(&self) -> String {
        match self {
            Op::Powi(n) => format!("powi({})", n),
            o => format!("{:?}", o).to_lowercase(),
        }
    }
    fn short(&self) -> &'static str {
        match self {
            Op::Add => "add",
            Op::Sub => "sub",
            Op::Neg => "neg",
            Op::Mul => "mul",
            Op::Div => "div",
            Op::Powi(_) => "powi",
            Op::Recip => "recip",
            Op::AddAssign => "add_assign",
            Op::SubAssign => "sub_assign",
            Op::MulAssign => "mul_assign",
            Op::DivAssign => "div_assign",
        }
    }
    fn binary(&self) -> bool {
        matches!(self, Op::Add | Op::Sub | Op::Mul | Op::Div | Op::AddAssign | Op::SubAssign | Op::MulAssign | Op::DivAssign)
    }
}

/// grid: values k * 2^-s with |k| <= kmax; power-of-two real parts 2^t with |t| <= tmax; powi
/// exponents |n| <= nmax. Chosen per (order, float width) so that every intermediate of any
/// polynomial formula of the needed degree fits the mantissa (see DESIGN.md, C02).
struct Grid {
    s: i32,
    kmax: i64,
    tmax: i64,
    nmax: i64,
}
fn grid(order: usize, f32: bool) -> Grid {
    if f32 {
        match order {
            0..=2 => Grid { s: 1, kmax: 3, tmax: 1, nmax: 4 },
            3 => Grid { s: 1, kmax: 2, tmax: 0, nmax: 4 },
            _ => Grid { s: 0, kmax: 1, tmax: 0, nmax: 3 },
        }
    } else {
        match order {
            0..=3 => Grid { s: 3, kmax: 12, tmax: 2, nmax: 6 },
            _ => Grid { s: 1, kmax: 3, tmax: 1, nmax: 5 },
        }
    }
}
impl Grid {
    fn val(&self, rng: &mut Rng, nonzero: bool) -> f64 {
        loop {
            let k = rng.int(-self.kmax, self.kmax);
            if k != 0 || !nonzero {
                return k as f64 * (2.0f64).powi(-self.s);
            }
        }
    }
    fn pow2(&self, rng: &mut Rng) -> f64 {
        rng.sign() * (2.0f64).powi(rng.int(-self.tmax, self.tmax) as i32)
    }
}

fn run_impl<T: Jetty>(op: Op, a: &T, b: &T) -> T {
    match op {
        Op::Add => a.rr_add(b),
        Op::Sub => a.rr_sub(b),
        Op::Neg => a.r_neg(),
        Op::Mul => a.rr_mul(b),
        Op::Div => a.rr_div(b),
        Op::Powi(n) => a.powi(n),
        Op::Recip => a.recip(),
        Op::AddAssign => {
            let mut x = a.clone();
            x += b.clone();
            x
        }
        Op::SubAssign => {
            let mut x = a.clone();
            x -= b.clone();
            x
        }
        Op::MulAssign => {
            let mut x = a.clone();
            x *= b.clone();
            x
        }
        Op::DivAssign => {
            let mut x = a.clone();
            x /= b.clone();
            x
        }
    }
}
fn run_model(op: Op, a: &Jet<Rat>, b: &Jet<Rat>, bs: &Basis) -> Jet<Rat> {
    match op {
        Op::Add | Op::AddAssign => a.add(b),
        Op::Sub | Op::SubAssign => a.sub(b),
        Op::Neg => a.neg(),
        Op::Mul | Op::MulAssign => a.mul(b, bs),
        Op::Div | Op::DivAssign => a.div(b, bs),
        Op::Powi(n) => a.powi(n, bs),
        Op::Recip => a.recip(bs),
    }
}

struct TypeStats {
    pairs_existing: usize,
    pairs_seen: BTreeSet<(usize, usize)>,
}

#[allow(clippy::too_many_arguments)]
fn one_case<T: Jetty>(
    acc: &mut Acc,
    st: &mut TypeStats,
    tname: &str,
    kind: &str,
    op: Op,
    shape: &ndv_core::Shape,
    bs: &Basis,
    aslots: &[f64],
    bslots: &[f64],
    mask_a: u64,
    mask_b: u64,
) {
    let mant_bits = if T::IS_F32 { 24 - 3 } else { 53 - 3 };
    let a: T = build_with(shape, aslots, &mut MaskAbsent::new(mask_a));
    let b: T = build_with(shape, bslots, &mut MaskAbsent::new(mask_b));
    let (_, pa) = parts_presence(&a, shape);
    let (_, pb) = parts_presence(&b, shape);
    let ja: Jet<Rat> = Jet::from_slots(bs, aslots);
    let jb: Jet<Rat> = Jet::from_slots(bs, bslots);
    let want = match guarded(|| run_model(op, &ja, &jb, bs).to_slots(bs)) {
        Ok(w) => w,
        Err(_) => {
            acc.count("dropped_model_overflow", 1);
            return;
        }
    };
    let wantf: Option<Vec<f64>> = want.iter().map(|r| r.to_float_exact(mant_bits)).collect();
    let wantf = match wantf {
        Some(w) => w,
        None => {
            acc.count("dropped_result_not_exactly_representable", 1);
            return;
        }
    };
    let case = || {
        json!({"type": tname, "shape": shape.name(), "op": op.name(), "a_slots": floats(aslots), "b_slots": floats(bslots), "mask_a": mask_a, "mask_b": mask_b})
    };
    let got = match guarded(|| parts(&run_impl(op, &a, &b), shape)) {
        Ok(g) => g,
        Err(msg) => {
            acc.observe(&format!("{}|{}|{}|panic", op.short(), tname, kind), true);
            acc.violate(format!("{}:{}:panic", op.short(), tname), format!("{} on {} panicked: {}", op.name(), tname, msg), case());
            return;
        }
    };
    // which monomial pairs interact in this case
    if matches!(op, Op::Mul | Op::Div | Op::MulAssign | Op::DivAssign) {
        let n = bs.n();
        for i in 0..n {
            if ja.c[i].is_zero() {
                continue;
            }
            for j in 0..n {
                if !jb.c[j].is_zero() && bs.mul[i * n + j] != NONE {
                    st.pairs_seen.insert((i, j));
                }
            }
        }
    }
    let nz = aslots[1..].iter().filter(|v| **v != 0.0).count() + bslots[1..].iter().filter(|v| **v != 0.0).count();
    let class = format!(
        "{}|{}|{}|{}|{}",
        op.short(),
        tname,
        kind,
        presence_key(&pa),
        if op.binary() { presence_key(&pb) } else { "-".into() }
    );
    acc.observe(&class, nz >= 1);
    for s in 0..got.len() {
        if got[s] != wantf[s] {
            let m = bs.slot_mono[s];
            acc.violate(
                format!("{}:{}:deg{}", op.short(), tname, bs.deg[m]),
                format!(
                    "{} on {} part {} ({}): got {:e}, exact value {:e}",
                    op.name(),
                    tname,
                    s,
                    bs.mono_name(m),
                    got[s],
                    wantf[s]
                ),
                case(),
            );
            break;
        }
    }
    if acc.samples.len() < 2 && nz >= 3 {
        acc.sample(|| json!({"type": tname, "op": op.name(), "a_slots": floats(aslots), "b_slots": floats(bslots), "result": floats(&got)}));
    }
}

/// slot vector with value v at all slots of monomial m
fn onehot(bs: &Basis, re: f64, m: usize, v: f64) -> Vec<f64> {
    bs.slot_mono
        .iter()
        .enumerate()
        .map(|(s, &mm)| if s == 0 { re } else if mm == m && m != 0 { v } else { 0.0 })
        .collect()
}

fn check_type<T: Jetty>(tname: &str, ctx: &Ctx, shard: usize, nshards: usize, tindex: u64) -> (Acc, serde_json::Value) {
    let mut acc = Acc::new();
    let mut rng = Rng::stream(ctx.seed, tindex, shard as u64);
    let dyn_dims: Vec<(usize, usize)> =
        if T::shape((7, 7)) == T::shape((1, 1)) { vec![(0, 0)] } else { vec![(0, 0), (1, 1), (2, 3), (3, 2), (4, 1), (6, 2)] };
    let mut per_shape = Vec::new();
    let mut idx = 0u64;
    for dd in dyn_dims {
        let shape = T::shape(dd);
        let bs = Basis::new(&shape);
        let g = grid(shape.order(), T::IS_F32);
        let n = bs.n();
        let mut st = TypeStats {
            pairs_existing: (0..n * n).filter(|&ij| bs.mul[ij] != NONE).count(),
            pairs_seen: BTreeSet::new(),
        };
        // (i) one-hot pairs: every (monomial, monomial) interaction, both binary multiplicative ops
        for i in 0..n {
            for j in 0..n {
                // variants: 0 all parts present, 1 random presence masks, 2 / 3 the innermost real part of
                // the left / right operand is exactly zero (all parts present): `is_zero()` on a dual
                // number sees only that, whatever the derivative parts carry
                for variant in 0..4u32 {
                    idx += 1;
                    if idx % nshards as u64 != shard as u64 {
                        continue;
                    }
                    let (al, be) = (g.val(&mut rng, true), g.val(&mut rng, true));
                    let a0 = if variant == 2 { 0.0 } else { g.val(&mut rng, true) };
                    let asl = onehot(&bs, a0, i, al);
                    for op in [Op::Mul, Op::Div, Op::Add, Op::Sub, Op::SubAssign, Op::AddAssign, Op::MulAssign, Op::DivAssign] {
                        let b0 = if matches!(op, Op::Div | Op::DivAssign) { g.pow2(&mut rng) } else if variant == 3 { 0.0 } else { g.val(&mut rng, true) };
                        let bsl = onehot(&bs, b0, j, be);
                        let (ma, mb) = if variant != 1 { (0, 0) } else { (rng.next_u64(), rng.next_u64()) };
                        one_case::<T>(&mut acc, &mut st, tname, "one-hot", op, &shape, &bs, &asl, &bsl, ma, mb);
                    }
                }
            }
        }
        // (ii) random full grid points, all ops
        let reps = ctx.n(1500, 600000);
        for rep in 0..reps {
            idx += 1;
            if idx % nshards as u64 != shard as u64 {
                continue;
            }
            let sparse = rep % 3 == 1;
            let mut mk = |rng: &mut Rng, re: f64| -> Vec<f64> {
                let mut dv = vec![0.0; n];
                dv[0] = re;
                for d in dv.iter_mut().skip(1) {
                    *d = if sparse && rng.chance(0.5) { 0.0 } else { g.val(rng, false) };
                }
                bs.slot_mono.iter().map(|&m| dv[m]).collect()
            };
            let op = match rep % 12 {
                8 => Op::AddAssign,
                9 => Op::SubAssign,
                10 => Op::MulAssign,
                11 => Op::DivAssign,
                0 => Op::Add,
                1 => Op::Sub,
                2 => Op::Neg,
                3 | 4 => Op::Mul,
                5 => Op::Div,
                6 => {
                    let mut e = rng.int(-g.nmax, g.nmax) as i32;
                    if rng.chance(0.2) {
                        e = *rng.choose(&[0, 1, 2, 3, -1]);
                    }
                    Op::Powi(e)
                }
                _ => Op::Recip,
            };
            let a0 = if matches!(op, Op::Powi(_) | Op::Recip) { g.pow2(&mut rng) } else { g.val(&mut rng, true) };
            let b0 = if matches!(op, Op::Div | Op::DivAssign) { g.pow2(&mut rng) } else { g.val(&mut rng, true) };
            let asl = mk(&mut rng, a0);
            let mut bsl = mk(&mut rng, b0);
            // one case in seven: the derivative blocks of the outermost level agree between the two
            // operands in their innermost real components (on nested types the inner derivative
            // parts still differ) -- `==` on dual elements cannot tell such blocks apart
            let twin = rep % 7 == 3;
            if twin {
                let nouter = match &shape {
                    ndv_core::Shape::Level(k, _) => k.nvars(),
                    _ => 0,
                };
                for (sl, &m) in bs.slot_mono.iter().enumerate() {
                    let e = &bs.monos[m];
                    let outer: usize = e[..nouter].iter().map(|v| *v as usize).sum();
                    let inner: usize = e[nouter..].iter().map(|v| *v as usize).sum();
                    if outer >= 1 && inner == 0 {
                        bsl[sl] = asl[sl];
                    }
                }
            }
            let (ma, mb) = if twin { (0, 0) } else { (rng.next_u64(), rng.next_u64()) };
            one_case::<T>(&mut acc, &mut st, tname, if twin { "random-twin-blocks" } else { "random" }, op, &shape, &bs, &asl, &bsl, ma, mb);
        }
        // (iii) presence enumeration: zero groups of both operands represented in all 2^k ways
        let ngroups = {
            let x: T = build_all(&shape, &vec![0.0; shape.nslots()]);
            parts_presence(&x, &shape).1.len()
        };
        if ngroups > 0 {
            for rep in 0..ctx.n(6, 60) {
                idx += 1;
                if idx % nshards as u64 != shard as u64 {
                    continue;
                }
                // operands where whole groups are zero: choose per monomial-degree class
                let mut mk = |rng: &mut Rng, re: f64| -> Vec<f64> {
                    let keep1 = rng.bool();
                    let keep2 = rng.bool();
                    let mut dv = vec![0.0; n];
                    dv[0] = re;
                    for m in 1..n {
                        let keep = if bs.deg[m] == 1 { keep1 } else { keep2 };
                        dv[m] = if keep { g.val(rng, false) } else { 0.0 };
                    }
                    bs.slot_mono.iter().map(|&m| dv[m]).collect()
                };
                let op = *rng.choose(&[Op::Add, Op::Sub, Op::Mul, Op::Div, Op::Neg, Op::Recip, Op::Powi(3), Op::AddAssign, Op::SubAssign, Op::MulAssign, Op::DivAssign]);
                let a0 = if matches!(op, Op::Powi(_) | Op::Recip) { g.pow2(&mut rng) } else { g.val(&mut rng, true) };
                let b0 = if matches!(op, Op::Div | Op::DivAssign) { g.pow2(&mut rng) } else { g.val(&mut rng, true) };
                let asl = mk(&mut rng, a0);
                let bsl = mk(&mut rng, b0);
                let kbits = (ngroups as u32).min(4);
                for ma in 0..(1u64 << kbits) {
                    for mb in 0..(1u64 << kbits) {
                        one_case::<T>(&mut acc, &mut st, tname, "presence-enum", op, &shape, &bs, &asl, &bsl, ma, mb);
                    }
                }
            }
        }
        per_shape.push((shape.name(), st.pairs_existing, st.pairs_seen));
    }
    let v = json!(per_shape.iter().map(|(s, e, seen)| json!({"shape": s, "pairs_existing": e, "pairs_seen_by_this_shard": seen.len()})).collect::<Vec<_>>());
    // export seen pairs through counters so that shards can be merged: count distinct per shape
    for (s, e, seen) in &per_shape {
        for (i, j) in seen {
            acc.count(&format!("pair|{}|{}|{}", s, i, j), 1);
        }
        acc.count(&format!("pairs_existing|{}", s), 0);
        acc.maxi(&format!("pairs_existing|{}", s), *e as f64);
    }
    (acc, v)
}

fn main() {
    let ctx = Ctx::from_args("C02");
    let mut acc = ctx.parallel(|shard, nshards| {
        let mut acc = Acc::new();
        let mut t = 0u64;
        macro_rules! go {
            ($ty:ty, $name:expr) => {
                t += 1;
                let (a, _) = check_type::<$ty>($name, &ctx, shard, nshards, t);
                acc.merge(a);
            };
        }
        ndv_core::zoo_all!(go);
        go!(ndv_core::zoo::DD32, "Dual<Dual32>");
        go!(ndv_core::zoo::D2D32, "Dual2<Dual32>");
        go!(ndv_core::zoo::D3D64, "Dual3<Dual64>");
        go!(ndv_core::zoo::DHD64, "Dual<HyperDual64>");
        go!(ndv_core::zoo::HDVD_64, "HyperDualVec<Dual64,2,2>");
        go!(ndv_core::zoo::DVDD_64, "DualVec<Dual64,Dyn>");
        let _ = t;
        acc
    });
    // fold the pair counters into a per-shape coverage table
    let mut seen: std::collections::BTreeMap<String, usize> = Default::default();
    let keys: Vec<String> = acc.counters.keys().filter(|k| k.starts_with("pair|")).cloned().collect();
    for k in keys {
        let shape = k.split('|').nth(1).unwrap().to_string();
        *seen.entry(shape).or_insert(0) += 1;
        acc.counters.remove(&k);
    }
    let mut table = Vec::new();
    let mut all_pairs = true;
    let ex: Vec<(String, f64)> = acc.maxima.iter().filter(|(k, _)| k.starts_with("pairs_existing|")).map(|(k, v)| (k.clone(), *v)).collect();
    for (k, e) in ex {
        let shape = k.split('|').nth(1).unwrap().to_string();
        let s = *seen.get(&shape).unwrap_or(&0);
        if s < e as usize {
            all_pairs = false;
        }
        table.push(json!({"shape": shape, "monomial_pairs_existing": e as usize, "monomial_pairs_observed": s}));
        acc.maxima.remove(&k);
        acc.counters.remove(&k);
    }
    let types: BTreeSet<String> = acc.classes.keys().filter_map(|k| k.split('|').nth(1).map(|s| s.to_string())).collect();
    let ops: BTreeSet<String> = acc.classes.keys().map(|k| k.split('|').next().unwrap().to_string()).collect();
    let mut extra = serde_json::Map::new();
    extra.insert("monomial_pair_coverage".into(), json!(table));
    extra.insert("types_observed".into(), json!(types));
    extra.insert("ops_observed".into(), json!(ops));
    let required = vec![
        ("every existing (monomial, monomial) product pair observed for every shape".to_string(), all_pairs),
        ("all 11 operations observed".to_string(), ops.len() >= 11),
        ("at least 45 types observed".to_string(), types.len() >= 45),
    ];
    ctx.finish(
        acc,
        "class = (operation, type, case kind [one-hot pair | random grid point | presence enumeration], presence pattern of each operand); non-trivial = at least one non-zero derivative part. One-hot cases enumerate every (monomial of a, monomial of b) pair of every shape exhaustively; random cases draw all parts from the dyadic grid; presence enumeration represents the zero optional parts of both operands in all 2^k ways.",
        &[
            "grid sizes per (order, float width) keep every intermediate of a polynomial formula of the needed degree exactly representable (conservative bit budget, DESIGN.md C02); a case whose exact result is not representable with 3 spare mantissa bits is dropped and counted, never judged",
            "exact rational model (i128/i128) with overflow = drop",
        ],
        extra,
        &required,
    );
}
