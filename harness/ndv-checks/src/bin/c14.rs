//! C14 — cylindrical Bessel functions J0, J1, J2 are accurate with derivatives everywhere.
//! Monitor: bessel_j0/j1/j2 on every f64 type that can carry them (Copy types, nestings up to
//! sixth order) over a dense stratified sweep of [-60, 60] plus the special points (0, +-1e-5,
//! +-5 and their floating-point neighbours, tiny arguments, zeros of J_n), against derivatives
//! built from exact linear combinations of libm jn(m, x); parity monitor f(-x) vs f(x).

use ndv_checks::special::*;
use ndv_core::evidence::{floats, guarded, Acc, Ctx};
use ndv_core::funcs::{apply_bessel, model_point};
use ndv_core::gen::{gen_slots, STYLES};
use ndv_core::jetty::*;
use ndv_core::model::Jet;
use ndv_core::taylor::Func;
use ndv_core::zoo::*;
use ndv_core::{Basis, Rng};
use num_dual::BesselDual;
use serde_json::json;

const K: f64 = 32.0;
/// amplification per derivative order of the approximation ripple (calibrated, see DESIGN.md)
const AMP: f64 = 8.0;

fn nudge(x: f64, k: i64) -> f64 {
    f64::from_bits((x.to_bits() as i64 + k) as u64)
}

fn regions() -> Vec<(&'static str, Box<dyn Fn(&mut Rng) -> f64>)> {
    vec![
        ("zero", Box::new(|r| if r.bool() { 0.0 } else { -0.0 })),
        ("tiny", Box::new(|r| r.sign() * *r.choose(&[5e-324, 1e-300, 1e-100, 1e-30, 1e-12]))),
        ("around-1e-5", Box::new(|r| r.sign() * nudge(1e-5, r.int(-8, 8)))),
        ("(1e-5,0.1)", Box::new(|r| r.sign() * r.logu(1.1e-5, 0.1))),
        ("(0.1,5)", Box::new(|r| r.sign() * r.range(0.1, 5.0))),
        ("around-5", Box::new(|r| r.sign() * nudge(5.0, r.int(-8, 8)))),
        ("(5,20)", Box::new(|r| r.sign() * r.range(5.0, 20.0))),
        ("(20,60]", Box::new(|r| r.sign() * r.range(20.0, 60.0))),
        ("negative-sweep", Box::new(|r| -r.range(0.0, 60.0))),
        ("near-zero-of-Jn", Box::new(|r| {
            let z = *r.choose(&[2.404825557695773, 5.520078110286311, 3.831705970207512, 7.015586669815619, 5.135622301840683, 8.417244140399864]);
            r.sign() * (z + r.range(-1e-3, 1e-3))
        })),
        ("pm60", Box::new(|r| r.sign() * nudge(60.0, -(r.below(4) as i64)))),
    ]
}

fn check_type<T: Jetty<F = f64> + BesselDual>(tname: &str, ctx: &Ctx, shard: usize, nshards: usize, tindex: u64) -> Acc {
    let mut acc = Acc::new();
    let u = unit_roundoff::<T>();
    let per = ctx.n(250, 200000);
    let mut idx = 0u64;
    let shape = T::shape((0, 0));
    let b = Basis::new(&shape);
    for (fi, f) in [Func::BesselJ0, Func::BesselJ1, Func::BesselJ2].iter().enumerate() {
        let n = bessel_order(*f).unwrap();
        for (ri, (rname, rgen)) in regions().iter().enumerate() {
            for rep in 0..per {
                idx += 1;
                if idx % nshards as u64 != shard as u64 {
                    continue;
                }
                let mut rng = Rng::stream(ctx.seed, 1400 + tindex * 100 + fi as u64 * 20 + ri as u64, rep);
                let x0 = rgen(&mut rng);
                let style = (rep as usize) % STYLES.len();
                let slots = gen_slots(&mut rng, &b, x0, style, false);
                let x: T = build_all(&shape, &slots);
                let case = || json!({"type": tname, "func": f.short(), "x_slots": floats(&slots), "x_hex": ndv_core::hex(x0)});
                let class = format!("{}|{}|{}|{}", f.short(), tname, rname, if x0.is_sign_negative() { "neg" } else { "pos" });
                acc.observe(&class, style != 2);
                let got = match guarded(|| apply_bessel(*f, x)) {
                    Ok(g) => parts(&g, &shape),
                    Err(m) => {
                        acc.violate(format!("{}:{}:panic", f.short(), tname), format!("{} on {} panicked: {}", f.short(), tname, m), case());
                        continue;
                    }
                };
                ndv_core::evlog::log_unary("C14", tname, *f, &b, &slots, &got, false);
                let jet = Jet::from_slots(&b, &slots);
                let (want, tight, _) = model_point(*f, &jet, &b, &bessel_tight(AMP));
                let in_band = n == 2 && x0 != 0.0 && x0.abs() < 1.0;
                let loose: Option<Vec<f64>> = None; let _ = in_band;
                judge(&mut acc, K, u, &format!("{}({:e})", f.short(), x0), f.short(), tname, &b, &got, &want, &tight, loose.as_ref().map(|l| (K2_SIG, l.as_slice())), 1e-300, &case);
                // parity: f(-x) with the same derivative parts. J0, J2 even, J1 odd: part of total
                // degree k picks up (-1)^k (times -1 for J1) when x -> -x with parts fixed? No: the
                // operand -x0 + parts is not the mirror image. Mirror: negate x0 and all odd-degree
                // parts' contribution, i.e. evaluate at -(x): f(-X) = +-f(X) for the dual number X.
                if rep % 4 == 0 {
                    let xm: T = -x;
                    if let Ok(gm) = guarded(|| apply_bessel(*f, xm)) {
                        let gm = parts(&gm, &shape);
                        let sgn = if n == 1 { -1.0 } else { 1.0 };
                        acc.observe(&format!("{}-parity|{}|{}", f.short(), tname, rname), true);
                        for s in 0..got.len() {
                            let tol = 2.0 * K * u * loose.as_ref().map(|l| l[s]).unwrap_or(tight[s]) + 1e-300;
                            if !((gm[s] - sgn * got[s]).abs() <= tol) {
                                acc.violate(format!("{}-parity:{}", f.short(), tname), format!("{}(-X) part {} = {:e} but {}{}(X) = {:e} on {} at x = {:e}", f.short(), s, gm[s], if sgn < 0.0 { "-" } else { "" }, f.short(), sgn * got[s], tname, x0), case());
                                break;
                            }
                        }
                    }
                }
                if rep == 0 && ri == 4 && tindex % 5 == 0 {
                    acc.sample(|| json!({"type": tname, "func": f.short(), "x_slots": floats(&slots), "got": floats(&got), "true": floats(&want)}));
                }
            }
        }
    }
    acc
}

fn main() {
    let ctx = Ctx::from_args("C14");
    let mut acc = ctx.parallel(|shard, nshards| {
        let mut acc = Acc::new();
        let mut t = 0u64;
        macro_rules! go {
            ($ty:ty, $name:expr) => {
                t += 1;
                acc.merge(check_type::<$ty>($name, &ctx, shard, nshards, t));
            };
        }
        ndv_core::zoo_scalar64!(go);
        go!(DualSVec64<1>, "DualSVec64<1>");
        go!(DualSVec64<3>, "DualSVec64<3>");
        go!(Dual2SVec64<2>, "Dual2SVec64<2>");
        go!(HyperDualSVec64<2, 3>, "HyperDualSVec64<2,3>");
        go!(ndv_core::zoo::DD64, "Dual<Dual64>");
        go!(ndv_core::zoo::DDD64, "Dual<Dual<Dual64>>");
        go!(ndv_core::zoo::D2D64, "Dual2<Dual64>");
        go!(ndv_core::zoo::DD2_64, "Dual<Dual2_64>");
        go!(ndv_core::zoo::D2D2_64, "Dual2<Dual2_64>");
        go!(ndv_core::zoo::D3D64, "Dual3<Dual64>");
        go!(ndv_core::zoo::HDD64, "HyperDual<Dual64>");
        go!(ndv_core::zoo::HDHD64, "HyperDual<HyperDual64>");
        go!(ndv_core::zoo::HHDD64, "HyperHyperDual<Dual64>");
        go!(ndv_core::zoo::DVD2_64, "DualVec<Dual64,2>");
        go!(f64, "f64");
        let _ = t;
        acc
    });
    // results must not depend on what was called before, on which thread, or at the same time
    acc.merge(ndv_checks::history_independence(ndv_checks::Family::CylindricalBessel, &ctx));
    let regs: std::collections::BTreeSet<String> = acc.classes.keys().filter(|k| k.starts_with("bessel") && !k.contains("-parity")).filter_map(|k| k.split('|').nth(2).map(|s| s.to_string())).collect();
    let mut extra = serde_json::Map::new();
    extra.insert("argument_regions_observed".into(), json!(regs));
    extra.insert("K".into(), json!(K));
    extra.insert("AMP".into(), json!(AMP));
    let required = vec![(format!("all 11 argument regions observed (seen {})", regs.len()), regs.len() >= 11)];
    ctx.finish(
        acc,
        "class = (function, type, argument region, sign); non-trivial = derivative parts not all zero. Regions: +-0, tiny, 1e-5 +- 8 ulp, (1e-5,0.1), (0.1,5), 5 +- 8 ulp, (5,20), (20,60], negative sweep, neighbourhoods of zeros of J_n, +-60. Parity monitor on every fourth case: f(-X) = +-f(X) for the dual operand X.",
        &[
            "truth: J_n^(k) = 2^-k sum_j (-1)^j C(k,j) J_(n-k+2j) from libm jn (absolutely well conditioned); tolerance absolute: K*u*sum|terms| with |J^(k)|/k! replaced by max(|g_k|, AMP^k/k!), K = 32, AMP = 8",
            "known finding K2 (bessel_j2 = 2 J1/x - J0 for 0 < |x| < 1): cases that miss the tight bound but meet 8/|x|^(k+1) are reported as KNOWN-FINDING",
        ],
        extra,
        &required,
    );
}
