//! C06 — the real part is transparent and alone decides comparisons and branches.
//! Monitors: (1) perturbation: same real parts, different derivative parts => every node's real
//! part bitwise identical; (2) agreement of the real part with the same program on plain floats;
//! (3) comparison / predicate tables against the float answers; (4) branch traces of guarded
//! programs; (5) the plain-float instances against the standard library.

use approx::{AbsDiffEq, RelativeEq, UlpsEq};
use nalgebra::RealField;
use ndv_core::evidence::{floats, guarded, Acc, Ctx};
use ndv_core::gen::gen_slots;
use ndv_core::jetty::*;
use ndv_core::model::Jet;
use ndv_core::program::{generate, GenCfg, Node, ProgTy};
use ndv_core::track::Tr;
use ndv_core::zoo::*;
use ndv_core::{Basis, Rng};
use num_dual::DualNum;
use num_traits::{One, Signed, Zero};
use serde_json::json;
use std::cmp::Ordering;

const K: f64 = 32.0;

fn ulps(a: f64, b: f64, f32: bool) -> u64 {
    if f32 {
        ndv_core::ulp_diff_f32(a as f32, b as f32)
    } else {
        ndv_core::ulp_diff_f64(a, b)
    }
}

/// derivative parts for the perturbed run: independent, some huge, some tiny, some absent
fn perturbed(rng: &mut Rng, b: &Basis, re: f64, f32: bool) -> Vec<f64> {
    let big = if f32 { 1e30 } else { 1e300 };
    let mode = rng.below(5);
    let mut dv = vec![0.0; b.n()];
    dv[0] = re;
    for d in dv.iter_mut().skip(1) {
        *d = match mode {
            0 => rng.part(),
            1 => rng.sign() * big,
            2 => rng.sign() * rng.logu(1e-30, 1e-20),
            3 => 0.0,
            _ => {
                if rng.bool() {
                    rng.part() * 1e6
                } else {
                    0.0
                }
            }
        };
        if f32 {
            *d = *d as f32 as f64;
        }
    }
    b.slot_mono.iter().map(|&m| dv[m]).collect()
}

/// ops whose real part is the same float operation applied to the real part(s)
fn strict(node: &Node) -> bool {
    use ndv_core::Func::*;
    match node {
        Node::Un(f, _) => matches!(
            f,
            Recip | Sqrt | Cbrt | Exp | Exp2 | ExpM1 | Ln | Log(_) | Log2 | Log10 | Ln1p | Sin | Cos | Asin | Acos | Atan | Sinh | Cosh | Tanh | Asinh | Acosh | Atanh
        ),
        Node::SinCos(_, _) | Node::Neg(_) | Node::Abs(_) | Node::Inv(_) | Node::Atan2(_, _) => true,
        Node::Bin(op, _, _, _) | Node::Assign(op, _, _) => !matches!(op, ndv_core::program::BinOp::Div),
        Node::Scalar(_, _, _) | Node::AssignScalar(_, _, _) => true,
        Node::Sum(_, _) | Node::Product(_, _) | Node::Select(_, _, _, _, _) => true,
        Node::Input(_) | Node::Const(_) | Node::ConstPrim(_) | Node::FloatConst(_) | Node::Zero | Node::One => true,
        _ => false,
    }
}

fn check_type<T: ProgTy>(tname: &str, ctx: &Ctx, shard: usize, nshards: usize, tindex: u64) -> Acc
where
    T::F: ProgTy + DualNum<T::F>,
{
    let mut acc = Acc::new();
    let ncases = ctx.n(200, 400000);
    let u = unit_roundoff::<T>();
    ndv_core::track::set_u(u);
    let leaf = ndv_core::Shape::Leaf;
    for ci in 0..ncases {
        if ci % nshards as u64 != shard as u64 {
            continue;
        }
        let mut rng = Rng::stream(ctx.seed, 600 + tindex, ci);
        let shape = T::shape((1 + rng.below(4), 1 + rng.below(3)));
        let b = Basis::new(&shape);
        let n = 1 + rng.below(3);
        let x: Vec<f64> = (0..n)
            .map(|_| (match rng.below(8) { 0 => 0.0, 1 => 1.0, 2 | 3 => rng.range(-2.0, -0.2), 4 => rng.range(0.05, 0.9), _ => rng.range(0.2, 2.0) }) as f32 as f64)
            .collect();
        let cfg = GenCfg { max_nodes: 4 + rng.below(24), ninputs: n, f32: T::IS_F32, selects: true, allow_sph: true };
        let (prog, _) = generate(&mut rng, &cfg, &x);
        let sa: Vec<Vec<f64>> = x.iter().map(|x0| gen_slots(&mut rng, &b, *x0, 0, T::IS_F32)).collect();
        let sb: Vec<Vec<f64>> = x.iter().map(|x0| perturbed(&mut rng, &b, *x0, T::IS_F32)).collect();
        let ia: Vec<T> = sa.iter().map(|s| build_all(&shape, s)).collect();
        let ib: Vec<T> = sb.iter().map(|s| build_with(&shape, s, &mut MaskAbsent::new(rng.next_u64()))).collect();
        let xf: Vec<T::F> = x.iter().map(|v| f_of::<T>(*v)).collect();
        let case = || json!({"type": tname, "shape": shape.name(), "program": prog.to_json(), "inputs_a": sa.iter().map(|s| floats(s)).collect::<Vec<_>>(), "inputs_b": sb.iter().map(|s| floats(s)).collect::<Vec<_>>()});
        let (ra, rb, rf) = match (guarded(|| prog.eval::<T>(&ia)), guarded(|| prog.eval::<T>(&ib)), guarded(|| prog.eval::<T::F>(&xf))) {
            (Ok(a), Ok(b2), Ok(f)) => (a, b2, f),
            _ => {
                acc.violate(format!("panic:{}", tname), format!("program on {} (or on its float type) panicked", tname), case());
                continue;
            }
        };
        // model for the rounding bound of the real part
        let tr_in: Vec<Tr> = sa.iter().map(|s| Tr::exact(Jet::from_slots(&b, s), &b)).collect();
        let model = prog.eval_model(&tr_in, &b, T::IS_F32);
        for (ni, node) in prog.nodes.iter().enumerate() {
            let opn = node.opname();
            let a0 = parts(&ra[ni], &shape)[0];
            let b0 = parts(&rb[ni], &shape)[0];
            let f0 = parts(&rf[ni], &leaf)[0];
            // (1) perturbation: bitwise
            acc.observe(&format!("perturb|{}|{}", opn, tname), true);
            if a0.to_bits() != b0.to_bits() && !(a0.is_nan() && b0.is_nan()) {
                acc.violate(
                    format!("perturb:{}:{}", opn, tname),
                    format!("node {} ({:?}) on {}: real part {:e} with one set of derivative parts, {:e} with another", ni, node, tname, a0, b0),
                    case(),
                );
                break;
            }
            // (2) float agreement
            acc.observe(&format!("float|{}|{}", opn, tname), true);
            let e0 = model[ni].e.c[0];
            let direct = match node {
                Node::Un(_, a) | Node::Neg(a) | Node::Abs(a) | Node::Inv(a) | Node::SinCos(a, _) | Node::Scalar(_, a, _) | Node::AssignScalar(_, a, _) => matches!(prog.nodes[*a], Node::Input(_)),
                Node::Bin(_, a, b2, _) | Node::Assign(_, a, b2) | Node::Atan2(a, b2) => matches!(prog.nodes[*a], Node::Input(_)) && matches!(prog.nodes[*b2], Node::Input(_)),
                Node::Input(_) | Node::Const(_) | Node::ConstPrim(_) | Node::FloatConst(_) | Node::Zero | Node::One => true,
                _ => false,
            };
            if f0.is_finite() && a0.is_finite() {
                if direct && strict(node) {
                    let d = ulps(a0, f0, T::IS_F32);
                    acc.maxi(&format!("ulps_vs_float[{}]", opn), d as f64);
                    if d > 4 {
                        acc.violate(
                            format!("float-ulps:{}:{}", opn, tname),
                            format!("node {} ({:?}) on {}: real part {:e} but the float operation gives {:e} ({} ulp)", ni, node, tname, a0, f0, d),
                            case(),
                        );
                        break;
                    }
                } else if e0.is_finite() && u * e0 <= 1e-4 * (1.0 + f0.abs()) {
                    let d = (a0 - f0).abs();
                    let floor = if T::IS_F32 { 1e-30 } else { 1e-290 };
                    if d > 2.0 * K * u * e0 + floor {
                        acc.violate(
                            format!("float-bound:{}:{}", opn, tname),
                            format!("node {} ({:?}) on {}: real part {:e} vs float program {:e}: |diff| {:.3e} > bound {:.3e}", ni, node, tname, a0, f0, d, 2.0 * K * u * e0),
                            case(),
                        );
                        break;
                    } else if e0 > 0.0 {
                        acc.ratio(d / (u * e0), || format!("{} on {}", opn, tname));
                    }
                }
            }
        }
        // (4) branch traces
        let (ta, tb, tf) = (prog.trace(&ra), prog.trace(&rb), prog.trace(&rf));
        if !ta.is_empty() {
            acc.observe(&format!("trace|{}|len{}", tname, ta.len().min(4)), true);
            if ta != tf || tb != tf {
                acc.violate(format!("trace:{}", tname), format!("branch trace on {}: {:?} / {:?} (perturbed) but the float run takes {:?}", tname, ta, tb, tf), case());
            }
        }
        // predicates on every type: functions of the real part only, equal to the float's
        for (xa, xb2, x0) in ia.iter().zip(&ib).zip(&xf).map(|((p, q), r)| (p, q, r)) {
            let fl = (x0.is_zero(), x0.is_one(), Signed::is_positive(x0), Signed::is_negative(x0));
            let da = (xa.is_zero(), xa.is_one(), xa.is_positive(), xa.is_negative());
            let db = (xb2.is_zero(), xb2.is_one(), xb2.is_positive(), xb2.is_negative());
            let rc = if x.contains(&0.0) { "with-zero" } else { "nonzero" };
            acc.observe(&format!("predicates|{}|{}", tname, rc), true);
            if da != fl || db != fl {
                acc.violate(format!("predicates:{}", tname), format!("is_zero/is_one/is_positive/is_negative on {} = {:?} / {:?} (perturbed) but the float says {:?}", tname, da, db, fl), case());
            }
            let sg_a = parts(&xa.signum(), &shape);
            let sg_b = parts(&xb2.signum(), &shape);
            let ab_a = parts(&xa.abs(), &shape)[0];
            let ab_b = parts(&xb2.abs(), &shape)[0];
            let x0f: f64 = (*x0).into();
            if sg_a[0].to_bits() != sg_b[0].to_bits() || ab_a.to_bits() != ab_b.to_bits() || ab_a != x0f.abs() || (x0f != 0.0 && sg_a[0] != x0f.signum()) || sg_a[1..].iter().any(|v| *v != 0.0) {
                acc.violate(format!("signum/abs:{}", tname), format!("signum/abs on {} at {:e}: signum {:?}/{:?}, abs {:e}/{:e}", tname, x0f, sg_a, sg_b, ab_a, ab_b), case());
            }
        }
        // real parts of the elementary functions at the ends of their domains and far out (where the
        // derivative parts may well be huge, infinite or NaN): still the float function's value
        if ci % 2 == 1 {
            use ndv_core::funcs::{apply, c01_funcs};
            use ndv_core::Func;
            let funcs = c01_funcs();
            let f = funcs[(ci / 2) as usize % funcs.len()];
            let kmax = if T::IS_F32 { 20 } else { 50 };
            let k = 2 + rng.below(kmax) as i32;
            let e = (2.0f64).powi(-k);
            let big = (2.0f64).powi(if T::IS_F32 { k.min(60) } else { k * 8 });
            let x0 = match f {
                Func::Asin | Func::Acos | Func::Atanh => rng.sign() * (1.0 - e),
                Func::Acosh => 1.0 + e,
                Func::Ln | Func::Log2 | Func::Log10 | Func::Log(_) | Func::Sqrt => if rng.bool() { e * e } else { big },
                Func::Ln1p => if rng.bool() { -1.0 + e } else { big },
                Func::Recip | Func::Cbrt | Func::Atan | Func::Asinh => rng.sign() * if rng.bool() { e * e } else { big },
                Func::Exp | Func::ExpM1 | Func::Sinh | Func::Cosh | Func::Tanh => rng.sign() * rng.range(0.0, if T::IS_F32 { 80.0 } else { 700.0 }),
                Func::Exp2 => rng.sign() * rng.range(0.0, if T::IS_F32 { 120.0 } else { 1000.0 }),
                _ => rng.sign() * if rng.bool() { e } else { rng.range(1.0, 1e4) },
            };
            let x0 = if T::IS_F32 { x0 as f32 as f64 } else { x0 };
            let mut sl = perturbed(&mut rng, &b, 1.0, T::IS_F32);
            sl[0] = x0;
            let xd: T = build_with(&shape, &sl, &mut MaskAbsent::new(rng.next_u64()));
            let xf0: T::F = f_of::<T>(x0);
            if let (Ok(yd), Ok(yf)) = (guarded(|| apply::<T, T::F>(f, &xd)), guarded(|| apply::<T::F, T::F>(f, &xf0))) {
                let g = parts(&yd, &shape)[0];
                let w: f64 = yf.into();
                acc.observe(&format!("real-part-at-domain-edge|{}|{}", f.short(), tname), true);
                let d = if g.is_nan() && w.is_nan() { 0 } else { ulps(g, w, T::IS_F32) };
                if d > 2 {
                    acc.violate(format!("real-part-edge:{}:{}", f.short(), tname), format!("{} on {} at real part {:e}: real part {:e}, the float function gives {:e} ({} ulp apart)", f.name(), tname, x0, g, w, d), json!({"type": tname, "func": f.name(), "x0": x0}));
                }
            }
        }
        // the predicates at special real parts (signed zeros, infinities, NaN of either sign): the
        // float's own answer, whatever the derivative parts say
        if ci % 4 == 0 {
            let specials = [0.0f64, -0.0, 1.0, -1.0, 5e-324, -5e-324, f64::INFINITY, f64::NEG_INFINITY, f64::NAN, -f64::NAN, 2.5, -2.5];
            let s0 = specials[(ci / 4) as usize % specials.len()];
            let mut sl = perturbed(&mut rng, &b, 1.0, T::IS_F32);
            sl[0] = s0;
            let xs: T = build_with(&shape, &sl, &mut MaskAbsent::new(rng.next_u64()));
            let xf0: T::F = f_of::<T>(s0);
            let fl = (xf0.is_zero(), xf0.is_one(), Signed::is_positive(&xf0), Signed::is_negative(&xf0));
            let du = (xs.is_zero(), xs.is_one(), xs.is_positive(), xs.is_negative());
            let nm = if s0.is_nan() { if s0.is_sign_negative() { "-NaN".to_string() } else { "NaN".to_string() } } else { format!("{:e}", s0) };
            acc.observe(&format!("predicates-special|{}|{}", tname, nm), true);
            if du != fl {
                acc.violate(format!("predicates-special:{}", tname), format!("is_zero/is_one/is_positive/is_negative on {} at real part {} = {:?} but the float says {:?}", tname, nm, du, fl), json!({"type": tname, "real_part": nm}));
            }
        }
        if ci == 0 && tindex % 7 == 0 {
            acc.sample(|| json!({"type": tname, "program": prog.to_json(), "real_parts": ra.iter().map(|v| parts(v, &shape)[0]).collect::<Vec<_>>(), "float_run": rf.iter().map(|v| parts(v, &leaf)[0]).collect::<Vec<_>>()}));
        }
    }
    acc
}

/// (3) comparison operators and field-level selections on the field-compatible types
fn compare_table<T>(tname: &str, ctx: &Ctx, shard: usize, tindex: u64) -> Acc
where
    T: Jetty + PartialOrd + RealField + AbsDiffEq<Epsilon = T> + RelativeEq + UlpsEq,
    T::F: PartialOrd + RealField + AbsDiffEq<Epsilon = T::F> + RelativeEq + UlpsEq,
{
    let mut acc = Acc::new();
    let mut rng = Rng::stream(ctx.seed, 650 + tindex, shard as u64);
    let specials: Vec<f64> = vec![0.0, -0.0, 1.0, -1.0, 1e-30, -1e-30, 1e30, 2.5, -2.5, 0.1, f64::NAN, f64::INFINITY, f64::NEG_INFINITY];
    for _ in 0..ctx.n(300, 300000) {
        let shape = T::shape((1 + rng.below(3), 1));
        let b = Basis::new(&shape);
        let a0 = *rng.choose(&specials);
        let b0 = match rng.below(4) {
            0 => a0,
            1 => {
                // one ulp apart in the float type
                if T::IS_F32 {
                    f32::from_bits((a0 as f32).to_bits().wrapping_add(1)) as f64
                } else {
                    f64::from_bits(a0.to_bits().wrapping_add(1))
                }
            }
            _ => *rng.choose(&specials),
        };
        let (a0, b0) = (a0 as f32 as f64, if T::IS_F32 { b0 as f32 as f64 } else { b0 });
        let c0 = *rng.choose(&specials) as f32 as f64;
        let a: T = build_with(&shape, &perturbed(&mut rng, &b, a0, T::IS_F32), &mut MaskAbsent::new(rng.next_u64()));
        let bb: T = build_with(&shape, &perturbed(&mut rng, &b, b0, T::IS_F32), &mut MaskAbsent::new(rng.next_u64()));
        let c: T = build_with(&shape, &perturbed(&mut rng, &b, c0, T::IS_F32), &mut MaskAbsent::new(rng.next_u64()));
        let (fa, fb, fc): (T::F, T::F, T::F) = (f_of::<T>(a0), f_of::<T>(b0), f_of::<T>(c0));
        let rel = match a0.partial_cmp(&b0) {
            Some(Ordering::Less) => "lt",
            Some(Ordering::Greater) => "gt",
            Some(Ordering::Equal) => "eq",
            None => "unordered",
        };
        acc.observe(&format!("compare|{}|{}", tname, rel), true);
        let got = (a == bb, a != bb, a < bb, a <= bb, a > bb, a >= bb, a.partial_cmp(&bb));
        let want = (fa == fb, fa != fb, fa < fb, fa <= fb, fa > fb, fa >= fb, fa.partial_cmp(&fb));
        let case = || json!({"type": tname, "a_re": a0, "b_re": b0, "c_re": c0});
        if got != want {
            acc.violate(format!("compare:{}", tname), format!("comparison operators on {} with real parts {:e}, {:e}: {:?} but floats give {:?}", tname, a0, b0, got, want), case());
        }
        // selections: the chosen operand's real part is what the float method chooses
        let re = |x: &T| parts(x, &shape)[0];
        let fr = |x: T::F| -> f64 { x.into() };
        let sel = [
            ("max", re(&RealField::max(a.clone(), bb.clone())), fr(RealField::max(fa, fb))),
            ("min", re(&RealField::min(a.clone(), bb.clone())), fr(RealField::min(fa, fb))),
        ];
        for (name, g, w) in sel {
            if a0.is_nan() || b0.is_nan() {
                continue;
            }
            acc.observe(&format!("{}|{}", name, tname), true);
            if g != w {
                acc.violate(format!("{}:{}", name, tname), format!("RealField::{} on {} with real parts {:e}, {:e}: real part {:e}, float gives {:e}", name, tname, a0, b0, g, w), case());
            }
        }
        if b0 <= c0 && !a0.is_nan() {
            let g = re(&RealField::clamp(a.clone(), bb.clone(), c.clone()));
            let w = fr(RealField::clamp(fa, fb, fc));
            acc.observe(&format!("clamp|{}", tname), true);
            if g != w {
                acc.violate(format!("clamp:{}", tname), format!("RealField::clamp on {} ({:e} in [{:e},{:e}]): real part {:e}, float gives {:e}", tname, a0, b0, c0, g, w), case());
            }
        }
        // approximate equality: real parts only; epsilon and max_relative differ so that a swapped
        // or dropped tolerance changes the answer
        {
            let base = *rng.choose(&[0.0, 1.0, -2.5, 1e-30, 1e30, 0.1]);
            let delta = *rng.choose(&[0.0, 1e-9, 5e-4, 1e-2, 3e-7]) * rng.sign();
            let p0 = base as f32 as f64;
            let q0 = if base.abs() >= 1.0 { base * (1.0 + delta) } else { base + delta };
            let q0 = q0 as f32 as f64;
            let e1 = *rng.choose(&[1e-3f64, 1e-6, 1e-9, 1e-1]) as f32 as f64;
            let e2 = *rng.choose(&[1e-3f64, 1e-6, 1e-9, 1e-1]) as f32 as f64;
            let pa: T = build_with(&shape, &perturbed(&mut rng, &b, p0, T::IS_F32), &mut MaskAbsent::new(rng.next_u64()));
            let qa: T = build_with(&shape, &perturbed(&mut rng, &b, q0, T::IS_F32), &mut MaskAbsent::new(rng.next_u64()));
            let eps_d: T = build_with(&shape, &perturbed(&mut rng, &b, e1, T::IS_F32), &mut AllPresent);
            let rel_d: T = build_with(&shape, &perturbed(&mut rng, &b, e2, T::IS_F32), &mut MaskAbsent::new(rng.next_u64()));
            let (pf, qf, e1f, e2f): (T::F, T::F, T::F, T::F) = (f_of::<T>(p0), f_of::<T>(q0), f_of::<T>(e1), f_of::<T>(e2));
            acc.observe(&format!("approx|{}|{}", tname, if e1 == e2 { "equal-tolerances" } else { "distinct-tolerances" }), true);
            let g = (
                pa.abs_diff_eq(&qa, eps_d.clone()),
                pa.relative_eq(&qa, eps_d.clone(), rel_d.clone()),
                pa.ulps_eq(&qa, eps_d.clone(), 4),
                pa.relative_eq(&qa, T::default_epsilon(), T::default_max_relative()),
                parts(&T::default_epsilon(), &shape)[0],
                parts(&T::default_max_relative(), &shape)[0],
                T::default_max_ulps(),
            );
            let w = (
                pf.abs_diff_eq(&qf, e1f),
                pf.relative_eq(&qf, e1f, e2f),
                pf.ulps_eq(&qf, e1f, 4),
                pf.relative_eq(&qf, <T::F as AbsDiffEq>::default_epsilon(), <T::F as RelativeEq>::default_max_relative()),
                { let v: f64 = <T::F as AbsDiffEq>::default_epsilon().into(); v },
                { let v: f64 = <T::F as RelativeEq>::default_max_relative().into(); v },
                <T::F as UlpsEq>::default_max_ulps(),
            );
            if g != w {
                acc.violate(format!("approx:{}", tname), format!("abs_diff_eq/relative_eq/ulps_eq/defaults on {} with real parts {:e}, {:e}, epsilon {:e}, max_relative {:e}: {:?} but floats give {:?}", tname, p0, q0, e1, e2, g, w), json!({"type": tname, "a_re": p0, "b_re": q0, "epsilon": e1, "max_relative": e2}));
            }
        }
        // abs_diff_eq / relative_eq at the values where |a - b| <= eps is decided by IEEE special cases:
        // equal infinities (inf - inf is NaN), NaN operands, negative and NaN tolerances
        {
            let vals = [f64::INFINITY, f64::NEG_INFINITY, f64::NAN, 1.0, 0.0, -0.0];
            let tols = [1e-3, 0.0, -1.0, f64::NAN, f64::INFINITY];
            let (a0, b0, t0) = (*rng.choose(&vals), *rng.choose(&vals), *rng.choose(&tols));
            let mut sa = perturbed(&mut rng, &b, 1.0, T::IS_F32);
            let mut sb = perturbed(&mut rng, &b, 1.0, T::IS_F32);
            let mut st = perturbed(&mut rng, &b, 1.0, T::IS_F32);
            sa[0] = a0;
            sb[0] = b0;
            st[0] = t0;
            let (pa, qa, td): (T, T, T) = (build_all(&shape, &sa), build_all(&shape, &sb), build_all(&shape, &st));
            let (pf, qf, tf): (T::F, T::F, T::F) = (f_of::<T>(a0), f_of::<T>(b0), f_of::<T>(t0));
            acc.observe(&format!("approx-special|{}", tname), true);
            let g = (pa.abs_diff_eq(&qa, td.clone()), pa.abs_diff_ne(&qa, td.clone()), pa.relative_eq(&qa, td.clone(), td.clone()));
            let w = (pf.abs_diff_eq(&qf, tf), pf.abs_diff_ne(&qf, tf), pf.relative_eq(&qf, tf, tf));
            if g != w {
                acc.violate(format!("approx-special:{}", tname), format!("abs_diff_eq / abs_diff_ne / relative_eq on {} with real parts {:?}, {:?} and tolerance {:?}: {:?} but floats give {:?}", tname, a0, b0, t0, g, w), json!({"type": tname, "a": format!("{:?}", a0), "b": format!("{:?}", b0), "tol": format!("{:?}", t0)}));
            }
        }
        // ulps_eq: operands k units in the last place apart, explicit max_ulps, an epsilon too small
        // to decide: the answer must be the float answer (k <= max_ulps)
        {
            let base: f64 = *rng.choose(&[1.0, -2.5, 0.1, 1e-3, 123456.75, -1e10]);
            let k = *rng.choose(&[0u32, 1, 3, 4, 5, 9, 17, 100]);
            let max_ulps = *rng.choose(&[0u32, 1, 4, 8, 16, 64, 1000]);
            let (p0, q0) = if T::IS_F32 {
                let p = base as f32;
                let q = f32::from_bits(p.to_bits() + k);
                (p as f64, q as f64)
            } else {
                (base, f64::from_bits(base.to_bits() + k as u64))
            };
            let (p0, q0) = if rng.bool() { (p0, q0) } else { (q0, p0) };
            let tiny = if T::IS_F32 { 1e-30 } else { 1e-200 };
            let pa: T = build_with(&shape, &perturbed(&mut rng, &b, p0, T::IS_F32), &mut MaskAbsent::new(rng.next_u64()));
            let qa: T = build_with(&shape, &perturbed(&mut rng, &b, q0, T::IS_F32), &mut MaskAbsent::new(rng.next_u64()));
            let eps_d: T = build_with(&shape, &perturbed(&mut rng, &b, tiny, T::IS_F32), &mut AllPresent);
            let (pf, qf, ef): (T::F, T::F, T::F) = (f_of::<T>(p0), f_of::<T>(q0), f_of::<T>(tiny));
            acc.observe(&format!("ulps_eq|{}|k{}|max{}", tname, k, max_ulps), true);
            let g = (pa.ulps_eq(&qa, eps_d.clone(), max_ulps), pa.ulps_ne(&qa, eps_d.clone(), max_ulps));
            let w = (pf.ulps_eq(&qf, ef, max_ulps), pf.ulps_ne(&qf, ef, max_ulps));
            if g != w {
                acc.violate(format!("ulps_eq:{}", tname), format!("ulps_eq/ulps_ne on {} with real parts {} ulps apart and max_ulps = {}: {:?} but floats give {:?}", tname, k, max_ulps, g, w), json!({"type": tname, "a_re": p0, "b_re": q0, "k": k, "max_ulps": max_ulps}));
            }
        }
    }
    acc
}

/// (5) plain-float instances of the interface return what the standard library returns
fn float_instances(ctx: &Ctx, shard: usize) -> Acc {
    let mut acc = Acc::new();
    let mut rng = Rng::stream(ctx.seed, 699, shard as u64);
    macro_rules! one {
        ($f:ty, $name:expr) => {{
            for _ in 0..ctx.n(300, 500000) {
                let x = (rng.sign() * rng.logu(1e-3, 30.0)) as $f;
                let y = (rng.sign() * rng.logu(1e-3, 30.0)) as $f;
                let z = rng.part() as $f;
                let n = rng.int(-8, 8) as i32;
                let px = x.abs();
                let u = (rng.range(-0.95, 0.95)) as $f;
                macro_rules! eqb {
                    ($m:expr, $got:expr, $want:expr) => {{
                        acc.observe(&format!("float-instance|{}|{}", $m, $name), true);
                        let (g, w): ($f, $f) = ($got, $want);
                        if g.to_bits() != w.to_bits() && !(g.is_nan() && w.is_nan()) {
                            acc.violate(format!("float-instance:{}:{}", $m, $name), format!("<{} as DualNum>::{} at x={:e}: {:e} but std gives {:e}", $name, $m, x, g, w), json!({"x": x as f64, "y": y as f64, "n": n}));
                        }
                    }};
                }
                eqb!("re", DualNum::<$f>::re(&x), x);
                eqb!("recip", DualNum::<$f>::recip(&x), <$f>::recip(x));
                eqb!("powi", DualNum::<$f>::powi(&x, n), <$f>::powi(x, n));
                eqb!("powf", DualNum::<$f>::powf(&px, z), <$f>::powf(px, z));
                eqb!("powd", DualNum::<$f>::powd(&px, z), <$f>::powf(px, z));
                eqb!("sqrt", DualNum::<$f>::sqrt(&px), <$f>::sqrt(px));
                eqb!("cbrt", DualNum::<$f>::cbrt(&x), <$f>::cbrt(x));
                eqb!("exp", DualNum::<$f>::exp(&z), <$f>::exp(z));
                eqb!("exp2", DualNum::<$f>::exp2(&z), <$f>::exp2(z));
                eqb!("exp_m1", DualNum::<$f>::exp_m1(&z), <$f>::exp_m1(z));
                eqb!("ln", DualNum::<$f>::ln(&px), <$f>::ln(px));
                eqb!("log", DualNum::<$f>::log(&px, 3.0), <$f>::log(px, 3.0));
                eqb!("log2", DualNum::<$f>::log2(&px), <$f>::log2(px));
                eqb!("log10", DualNum::<$f>::log10(&px), <$f>::log10(px));
                eqb!("ln_1p", DualNum::<$f>::ln_1p(&px), <$f>::ln_1p(px));
                eqb!("sin", DualNum::<$f>::sin(&x), <$f>::sin(x));
                eqb!("cos", DualNum::<$f>::cos(&x), <$f>::cos(x));
                eqb!("tan", DualNum::<$f>::tan(&x), <$f>::tan(x));
                eqb!("sin_cos.0", DualNum::<$f>::sin_cos(&x).0, <$f>::sin_cos(x).0);
                eqb!("sin_cos.1", DualNum::<$f>::sin_cos(&x).1, <$f>::sin_cos(x).1);
                eqb!("asin", DualNum::<$f>::asin(&u), <$f>::asin(u));
                eqb!("acos", DualNum::<$f>::acos(&u), <$f>::acos(u));
                eqb!("atan", DualNum::<$f>::atan(&x), <$f>::atan(x));
                eqb!("atan2", DualNum::<$f>::atan2(&x, y), <$f>::atan2(x, y));
                eqb!("sinh", DualNum::<$f>::sinh(&z), <$f>::sinh(z));
                eqb!("cosh", DualNum::<$f>::cosh(&z), <$f>::cosh(z));
                eqb!("tanh", DualNum::<$f>::tanh(&z), <$f>::tanh(z));
                eqb!("asinh", DualNum::<$f>::asinh(&x), <$f>::asinh(x));
                eqb!("acosh", DualNum::<$f>::acosh(&(px + 1.0)), <$f>::acosh(px + 1.0));
                eqb!("atanh", DualNum::<$f>::atanh(&u), <$f>::atanh(u));
                eqb!("mul_add", DualNum::<$f>::mul_add(&x, y, z), <$f>::mul_add(x, y, z));
                eqb!("from_inner", <$f as DualNum<$f>>::from_inner(x), x);
                acc.observe(&format!("float-instance|NDERIV|{}", $name), true);
                if <$f as DualNum<$f>>::NDERIV != 0 {
                    acc.violate(format!("float-instance:NDERIV:{}", $name), "NDERIV of a plain float is not 0".into(), json!({}));
                }
            }
        }};
    }
    one!(f64, "f64");
    one!(f32, "f32");
    acc
}

fn main() {
    let ctx = Ctx::from_args("C06");
    ndv_checks::warm_up_f32();
    let acc = ctx.parallel(|shard, nshards| {
        let mut acc = Acc::new();
        let mut t = 0u64;
        macro_rules! go {
            ($ty:ty, $name:expr) => {
                t += 1;
                acc.merge(check_type::<$ty>($name, &ctx, shard, nshards, t));
            };
        }
        ndv_core::zoo_all!(go);
        go!(ndv_core::zoo::DD32, "Dual<Dual32>");
        go!(ndv_core::zoo::DVDD_64, "DualVec<Dual64,Dyn>");
        macro_rules! cmp {
            ($ty:ty, $name:expr) => {
                t += 1;
                acc.merge(compare_table::<$ty>($name, &ctx, shard, t));
            };
        }
        cmp!(Dual64, "Dual64");
        cmp!(Dual32, "Dual32");
        cmp!(Dual2_64, "Dual2_64");
        cmp!(Dual2_32, "Dual2_32");
        cmp!(DualSVec64<2>, "DualSVec64<2>");
        cmp!(DualSVec32<2>, "DualSVec32<2>");
        cmp!(DualDVec64, "DualDVec64");
        cmp!(Dual2SVec64<2>, "Dual2SVec64<2>");
        cmp!(Dual2DVec64, "Dual2DVec64");
        cmp!(Dual2DVec32, "Dual2DVec32");
        cmp!(DualSVec64<1>, "DualSVec64<1>");
        cmp!(Dual2SVec32<2>, "Dual2SVec32<2>");
        acc.merge(float_instances(&ctx, shard));
        let _ = t;
        acc
    });
    let kinds: std::collections::BTreeSet<String> = acc.classes.keys().map(|k| k.split('|').next().unwrap().to_string()).collect();
    let mut extra = serde_json::Map::new();
    extra.insert("monitors_observed".into(), json!(kinds));
    let required = vec![(format!("all monitor kinds observed (seen {})", kinds.len()), kinds.len() >= 10)];
    ctx.finish(
        acc,
        "one evaluation = one observation of one monitor: (perturb) a program node's real part under two derivative-part assignments; (float) the real part against the same program on the plain float type; (trace) the branch decisions of a guarded program; (predicates, compare, max/min/clamp, approx) decisions against the float's; (float-instance) a method of <f64/f32 as DualNum> against std. class = (monitor, operation, type). Perturbed derivative parts include huge (1e300 / 1e30), tiny, zero and absent values.",
        &["operations whose real part is one float operation are required to agree with the float within 4 ulp (0 observed); compositions, quotients, powers and spherical Bessel functions within 2*K*u*bound", "signum at -0.0 is compared across derivative parts only (the float signum gives -1 there, the dual gives 0)"],
        extra,
        &required,
    );
}
