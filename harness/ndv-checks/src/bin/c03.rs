//! C03 — arbitrary programs of generic operations are differentiated correctly.
//! Monitor: random expression DAGs over the whole interface are evaluated over every type of the
//! zoo through the public traits only; every node value (not just the output) is compared part by
//! part with the tracked reference model, within the program's running first-order error bound.

use ndv_core::evidence::{floats, guarded, Acc, Ctx};
use ndv_core::gen::{gen_slots, round_to, STYLES};
use ndv_core::jetty::*;
use ndv_core::model::Jet;
use ndv_core::program::{generate, GenCfg, Node, Program};
use ndv_core::track::Tr;
use ndv_core::zoo::*;
use ndv_core::{Basis, Rng};
use num_traits::FloatConst;
use serde_json::json;
use std::collections::BTreeSet;

const K: f64 = 32.0;

fn node_depths(p: &Program) -> Vec<usize> {
    let mut d: Vec<usize> = Vec::with_capacity(p.nodes.len());
    for n in &p.nodes {
        let dep = |xs: &[usize], d: &Vec<usize>| xs.iter().map(|i| d[*i]).max().unwrap_or(0) + 1;
        let v = match n {
            Node::Input(_) | Node::Const(_) | Node::ConstPrim(_) | Node::FloatConst(_) | Node::Zero | Node::One => 0,
            Node::Un(_, a) | Node::SinCos(a, _) | Node::Neg(a) | Node::Inv(a) | Node::Abs(a) => dep(&[*a], &d),
            Node::Scalar(_, a, _) | Node::AssignScalar(_, a, _) => dep(&[*a], &d),
            Node::Bin(_, a, b, _) | Node::Assign(_, a, b) | Node::Powd(a, b) | Node::Atan2(a, b) => dep(&[*a, *b], &d),
            Node::MulAdd(a, b, c) => dep(&[*a, *b, *c], &d),
            Node::Sum(xs, _) | Node::Product(xs, _) => dep(xs, &d),
            Node::Select(_, a, b, t, e) => dep(&[*a, *b, *t, *e], &d),
        };
        d.push(v);
    }
    d
}

fn check_type<T>(tname: &str, ctx: &Ctx, shard: usize, nshards: usize, tindex: u64) -> Acc
where
    T: Jetty + FloatConst + for<'a> std::iter::Sum<&'a T> + for<'a> std::iter::Product<&'a T>,
{
    let mut acc = Acc::new();
    let nprog = ctx.n(1500, 600000);
    let u = unit_roundoff::<T>();
    ndv_core::track::set_u(u);
    let huge = if T::IS_F32 { 1e30 } else { 1e250 };
    // below this magnitude a non-zero part is in (or near) the subnormal range of the float type,
    // where relative accuracy is lost: such nodes (and everything downstream) are not judged
    let tiny = if T::IS_F32 { 1e-30 } else { 1e-280 };
    for pi in 0..nprog {
        if pi % nshards as u64 != shard as u64 {
            continue;
        }
        let mut rng = Rng::stream(ctx.seed, tindex, pi);
        let shape = T::shape((rng.below(4) + 1, rng.below(3) + 1));
        let b = Basis::new(&shape);
        let ninputs = 1 + rng.below(3);
        // evaluation point
        let x: Vec<f64> = (0..ninputs)
            .map(|_| {
                let v = match rng.below(16) {
                    12 => 0.0,
                    13 => 1.0,
                    0..=2 => rng.range(0.2, 2.0),
                    3..=5 => rng.range(-2.0, -0.2),
                    6..=8 => rng.range(0.05, 0.9),
                    _ => rng.sign() * rng.logu(0.5, 6.0),
                };
                round_to(v, T::IS_F32)
            })
            .collect();
        // one program in eight is evaluated far from the unit scale (nodes whose model leaves the
        // float range, and everything downstream, are skipped and counted below)
        let wide = pi % 8 == 5;
        let x: Vec<f64> = if wide {
            let kmax = if T::IS_F32 { 4 } else { 8 };
            x.iter().map(|v| round_to(v * (10.0f64).powi(rng.int(-kmax, kmax) as i32), T::IS_F32)).collect()
        } else {
            x
        };
        let cfg = GenCfg { max_nodes: 4 + rng.below(28), ninputs, f32: T::IS_F32, selects: true, allow_sph: true };
        let (prog, _vals) = generate(&mut rng, &cfg, &x);
        let style = rng.below(STYLES.len());
        let in_slots: Vec<Vec<f64>> = x.iter().map(|x0| gen_slots(&mut rng, &b, *x0, style, T::IS_F32)).collect();
        let masks: Vec<u64> = (0..ninputs).map(|_| rng.next_u64()).collect();
        let inputs: Vec<T> = in_slots.iter().zip(&masks).map(|(s, m)| build_with(&shape, s, &mut MaskAbsent::new(*m))).collect();
        let tr_in: Vec<Tr> = in_slots.iter().map(|s| Tr::exact(Jet::from_slots(&b, s), &b)).collect();
        let model = prog.eval_model(&tr_in, &b, T::IS_F32);
        let case = || json!({"type": tname, "shape": shape.name(), "program": prog.to_json(), "inputs": in_slots.iter().map(|s| floats(s)).collect::<Vec<_>>(), "absent_masks": masks});
        let got = match guarded(|| prog.eval::<T>(&inputs)) {
            Ok(g) => g,
            Err(msg) => {
                acc.observe(&format!("{}|panic", tname), true);
                acc.violate(format!("panic:{}", tname), format!("program on {} panicked: {}", tname, msg), case());
                continue;
            }
        };
        let depths = node_depths(&prog);
        let mut usable = true;
        for (ni, node) in prog.nodes.iter().enumerate() {
            let (want, mag) = model[ni].slots(&b);
            if want.iter().any(|w| *w != 0.0 && w.abs() < tiny) {
                acc.count("nodes_skipped_underflow_range", 1);
                usable = false;
            }
            if !model[ni].all_finite() || want.iter().any(|w| w.abs() > huge) {
                acc.count("nodes_skipped_overflow_range", 1);
                usable = false;
            }
            if !usable {
                // everything downstream of an unusable node is not judged
                continue;
            }
            if want.iter().zip(&mag).any(|(w, m)| u * m > 1e-4 * (1.0 + w.abs())) {
                acc.count("nodes_discarded_ill_conditioned", 1);
                continue;
            }
            let g = parts(&got[ni], &shape);
            let opn = node.opname();
            let class = format!("{}|{}|depth{}{}", opn, tname, depths[ni].min(6), if wide { "|wide-inputs" } else { "" });
            acc.observe(&class, depths[ni] >= 2);
            acc.count(&format!("op[{}]", opn), 1);
            let mut worst = 0.0f64;
            for s in 0..g.len() {
                let tol = K * u * mag[s];
                let d = (g[s] - want[s]).abs();
                let ok = g[s].is_finite() && d <= tol;
                if ok {
                    if mag[s] > 0.0 {
                        worst = worst.max(d / (u * mag[s]));
                    }
                } else {
                    let m = b.slot_mono[s];
                    acc.violate(
                        format!("{}:{}:deg{}", opn, tname, b.deg[m]),
                        format!(
                            "node {} ({:?}) on {} part {} ({}): got {:e} model {:e} |diff|/(u*bound) = {:.3e} (allowed {})",
                            ni,
                            node,
                            tname,
                            s,
                            b.mono_name(m),
                            g[s],
                            want[s],
                            if mag[s] > 0.0 { d / (u * mag[s]) } else { f64::INFINITY },
                            K
                        ),
                        case(),
                    );
                    usable = false; // do not cascade
                    break;
                }
            }
            acc.ratio(worst, || format!("{} on {}", opn, tname));
            acc.maxi(&format!("ratio[{}]", opn), worst);
        }
        if pi < 2 && tindex % 9 == 1 {
            let out = parts(got.last().unwrap(), &shape);
            acc.sample(|| json!({"type": tname, "program": prog.to_json(), "inputs": in_slots.iter().map(|s| floats(s)).collect::<Vec<_>>(), "output": floats(&out)}));
        }
        acc.count("programs", 1);
        acc.maxi("max_nodes_in_program", prog.nodes.len() as f64);
        acc.maxi("max_depth", *depths.iter().max().unwrap() as f64);
    }
    acc
}

fn main() {
    let ctx = Ctx::from_args("C03");
    ndv_checks::warm_up_f32();
    let acc = ctx.parallel(|shard, nshards| {
        let mut acc = Acc::new();
        let mut t = 0u64;
        macro_rules! go {
            ($ty:ty, $name:expr) => {
                t += 1;
                acc.merge(check_type::<$ty>($name, &ctx, shard, nshards, t));
            };
        }
        ndv_core::zoo_all!(go);
        go!(ndv_core::zoo::DD32, "Dual<Dual32>");
        go!(ndv_core::zoo::DVDD_64, "DualVec<Dual64,Dyn>");
        go!(ndv_core::zoo::HDVD_64, "HyperDualVec<Dual64,2,2>");
        go!(f64, "f64");
        go!(f32, "f32");
        let _ = t;
        acc
    });
    let ops: BTreeSet<String> = acc.classes.keys().map(|k| k.split('|').next().unwrap().to_string()).collect();
    let types: BTreeSet<String> = acc.classes.keys().filter_map(|k| k.split('|').nth(1).map(|s| s.to_string())).collect();
    let min_op = acc.counters.iter().filter(|(k, _)| k.starts_with("op[")).map(|(_, v)| *v).min().unwrap_or(0);
    let nops = acc.counters.keys().filter(|k| k.starts_with("op[")).count();
    let mut extra = serde_json::Map::new();
    extra.insert("ops_observed".into(), json!(ops));
    extra.insert("types_observed".into(), json!(types));
    extra.insert("K".into(), json!(K));
    let required = vec![
        (format!("at least 70 distinct operation forms executed (seen {})", nops), nops >= 70),
        (format!("every operation form executed at least 20 times (min {})", min_op), min_op >= 20),
        ("at least 45 types observed".to_string(), types.len() >= 45),
    ];
    ctx.finish(
        acc,
        "one evaluation = one node of a generated program compared on all parts; class = (operation form, type, composition depth); non-trivial = composition depth >= 2 (the operand is itself a computed value whose higher-order and mixed parts are independent of its first-order parts). Programs: random DAGs of 4..32 nodes over 1-3 independent inputs with sharing, every operation of the interface, operands kept inside each domain with a margin by evaluating in f64 during generation.",
        &[
            "first-order running error bound (track.rs); nodes whose bound exceeds 1e-4 relative are discarded and counted",
            "libm float functions accurate to ~1 ulp",
            "tolerance constant K=32 on top of the per-operation constants, calibrated on the unchanged tree",
        ],
        extra,
        &required,
    );
}
